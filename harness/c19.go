package main

import (
	"embed"
	"encoding/json"
	"fmt"
	"io"
	"net/http"
	"os"
	"path/filepath"
	"strings"
	"time"

	"github.com/CloudyKit/jet/v6"
	"github.com/CloudyKit/jet/v6/loaders/embedfs"
	"github.com/CloudyKit/jet/v6/loaders/httpfs"
	"github.com/CloudyKit/jet/v6/loaders/multi"
)

//go:embed embedfixture
var embedFixture embed.FS

// ---------------------------------------------------------------- InMemLoader

type c19Mut struct {
	Op   string   `json:"op"`
	Abs  bool     `json:"abs"`
	Segs []string `json:"segs"`
	C    string   `json:"c"`
}
type c19Query struct {
	Abs     bool     `json:"abs"`
	Segs    []string `json:"segs"`
	Exists  bool     `json:"exists"`
	Content string   `json:"content"`
}
type c19MemVec struct {
	Muts    []c19Mut   `json:"muts"`
	Queries []c19Query `json:"queries"`
}

func readAllLoader(l jet.Loader, p string) (content string, err error) {
	defer func() {
		if r := recover(); r != nil {
			err = fmt.Errorf("PANIC: %v", r)
		}
	}()
	f, e := l.Open(p)
	if e != nil {
		return "", e
	}
	defer f.Close()
	b, e := io.ReadAll(f)
	if e != nil {
		return "", e
	}
	return string(b), nil
}

func c19MemReplay(i int, raw json.RawMessage) Result {
	var v c19MemVec
	if err := json.Unmarshal(raw, &v); err != nil {
		return Result{Detail: "bad vector: " + err.Error()}
	}
	l := jet.NewInMemLoader()
	for _, m := range v.Muts {
		if m.Op == "Set" {
			l.Set(spell(m.Abs, m.Segs), m.C)
		} else {
			l.Delete(spell(m.Abs, m.Segs))
		}
	}
	key := ""
	if len(v.Muts) > 0 {
		b, _ := json.Marshal(v.Muts)
		key = string(b)
	}
	for _, q := range v.Queries {
		sp := spell(q.Abs, q.Segs)
		ex := l.Exists(sp)
		content, err := readAllLoader(l, sp)
		sig := map[string]interface{}{"loader": "inmem", "query": sp}
		if ex != q.Exists {
			return Result{Sig: sig, Key: key, Observed: ex, Expected: q.Exists, Detail: fmt.Sprintf("Exists(%q) = %v, spec %v", sp, ex, q.Exists)}
		}
		if q.Exists && (err != nil || content != q.Content) {
			return Result{Sig: sig, Key: key, Observed: content, Expected: q.Content, Detail: fmt.Sprintf("Open(%q) = %q, %v; spec content %q", sp, content, err, q.Content)}
		}
		if !q.Exists && err == nil {
			return Result{Sig: sig, Key: key, Observed: content, Detail: fmt.Sprintf("Open(%q) succeeded though the entry is absent", sp)}
		}
	}
	return Result{OK: true, Key: key}
}

// ---------------------------------------------------------------- file-system loaders, multi

type c19Tree struct {
	A  string `json:"a"`
	B  string `json:"b"`
	AA string `json:"aa"`
	AB string `json:"ab"`
}
type c19FSQuery struct {
	P      []string `json:"p"`
	Exists bool     `json:"exists"`
	Owner  int      `json:"owner"`
}
type c19FSVec struct {
	Stack   []c19Tree    `json:"stack"`
	Queries []c19FSQuery `json:"queries"`
}

var c19Root string
var c19Made = map[c19Tree]string{}

func (t c19Tree) id() string { return fmt.Sprintf("%s-%s-%s-%s", t.A, t.B, t.AA, t.AB) }

// materialise writes the tree under the scratch root (once per distinct tree).
func (t c19Tree) materialise() string {
	if d, ok := c19Made[t]; ok {
		return d
	}
	d := filepath.Join(c19Root, t.id())
	os.MkdirAll(d, 0o755)
	mk := func(rel, kind string) {
		switch kind {
		case "dir":
			os.MkdirAll(filepath.Join(d, rel), 0o755)
		case "file":
			os.WriteFile(filepath.Join(d, rel), []byte("T["+t.id()+"]:/"+rel), 0o644)
		}
	}
	mk("a", t.A)
	mk("b", t.B)
	mk("a/a", t.AA)
	mk("a/b", t.AB)
	c19Made[t] = d
	return d
}

// c19Prefixed asks the wrapped loader for prefix+name.
type c19Prefixed struct {
	jet.Loader
	prefix string
}

func (l c19Prefixed) Exists(name string) bool { return l.Loader.Exists(l.prefix + name) }
func (l c19Prefixed) Open(name string) (io.ReadCloser, error) {
	return l.Loader.Open(l.prefix + name)
}

var c19EmbedTree = c19Tree{A: "dir", B: "file", AA: "file", AB: "dir"}

// c19MemReader: what a reader obtained from Open yields is content that was stored under that path - the content at the
// time of Open or a later one, never a mixture - whatever is Set afterwards (under any spelling); and a failed Open
// leaves the loader usable
func c19MemReader() *Result {
	l := jet.NewInMemLoader()
	old := strings.Repeat("A", 40)
	l.Set("/p", old)
	r, err := l.Open("/p")
	if err != nil {
		return nil
	}
	l.Set("/p", "bbbbbbbb")
	l.Set("x/../p", "cc")
	b, _ := io.ReadAll(r)
	if got := string(b); got != old && got != "bbbbbbbb" && got != "cc" {
		return &Result{Sig: map[string]interface{}{"loader": "mem", "shape": "reader-after-set", "query_is_dir_somewhere": false}, Key: "history",
			Observed: got, Expected: old,
			Detail: fmt.Sprintf("a reader opened on /p (content %q), read after /p was Set twice, yielded %q: bytes that were never stored under /p", old, got)}
	}
	done := make(chan struct{})
	go func() {
		defer close(done)
		l.Open("/nosuch")
		l.Set("/q", "q")
		l.Delete("/q")
	}()
	select {
	case <-done:
	case <-time.After(5 * time.Second):
		return &Result{Sig: map[string]interface{}{"loader": "mem", "shape": "usable-after-failed-open", "query_is_dir_somewhere": false}, Key: "history",
			Observed: "blocked", Expected: "returns",
			Detail: "after Open of a path that is not stored, Set/Delete on the same InMemLoader did not return within 5 s"}
	}
	return nil
}

func c19FSReplay(i int, raw json.RawMessage) Result {
	var v c19FSVec
	if err := json.Unmarshal(raw, &v); err != nil {
		return Result{Detail: "bad vector: " + err.Error()}
	}
	if i == 0 {
		if r := c19MemReader(); r != nil {
			return *r
		}
	}
	key := string(raw)
	assignments := []string{"os", "os-slash", "http", "mixed", "mem", "memfirst"}
	if len(v.Stack) == 1 && v.Stack[0] == c19EmbedTree {
		// the same embedded tree under several spellings of the loader's root
		assignments = append(assignments, "embed", "embed-slash", "embed-dotslash", "embed-dot", "embed-unclean")
	}
	for _, asg := range assignments {
		var loaders []jet.Loader
		var content []string // expected content prefix per loader
		for k, t := range v.Stack {
			kind := asg
			if asg == "mixed" {
				kind = []string{"os", "http"}[k%2]
			}
			if asg == "memfirst" {
				kind = []string{"mem", "os", "http"}[k%3]
			}
			switch kind {
			case "os":
				loaders = append(loaders, jet.NewOSFileSystemLoader(t.materialise()))
				content = append(content, "T["+t.id()+"]:")
			case "os-slash":
				loaders = append(loaders, jet.NewOSFileSystemLoader(t.materialise()+"/./"))
				content = append(content, "T["+t.id()+"]:")
			case "http":
				l, err := httpfs.NewLoader(http.Dir(t.materialise()))
				if err != nil {
					return Result{Detail: "harness: " + err.Error()}
				}
				loaders = append(loaders, l)
				content = append(content, "T["+t.id()+"]:")
			case "mem":
				ml := jet.NewInMemLoader()
				add := func(rel, kind string) {
					if kind == "file" {
						ml.Set(rel, "T["+t.id()+"]:/"+rel)
					}
				}
				add("a", t.A)
				add("b", t.B)
				add("a/a", t.AA)
				add("a/b", t.AB)
				loaders = append(loaders, ml)
				content = append(content, "T["+t.id()+"]:")
			case "embed":
				loaders = append(loaders, embedfs.NewLoader("embedfixture", embedFixture))
				content = append(content, "EMBED:")
			case "embed-slash":
				loaders = append(loaders, embedfs.NewLoader("embedfixture/", embedFixture))
				content = append(content, "EMBED:")
			case "embed-dotslash":
				loaders = append(loaders, embedfs.NewLoader("./embedfixture", embedFixture))
				content = append(content, "EMBED:")
			case "embed-unclean":
				loaders = append(loaders, embedfs.NewLoader("embedfixture/a/..", embedFixture))
				content = append(content, "EMBED:")
			case "embed-dot":
				// rooted at the embed.FS's own root: the templates are the files below /embedfixture
				loaders = append(loaders, c19Prefixed{embedfs.NewLoader(".", embedFixture), "/embedfixture"})
				content = append(content, "EMBED:")
			}
		}
		var l jet.Loader
		shape := "single"
		if len(loaders) == 1 && asg != "mixed" && asg != "memfirst" {
			l = loaders[0]
		} else {
			m := multi.NewLoader(loaders[0])
			for _, x := range loaders[1:] {
				m.AddLoaders(x)
			}
			l = m
			shape = "multi"
		}
		for _, q := range v.Queries {
			p := "/" + strings.Join(q.P, "/")
			sig := map[string]interface{}{"loader": asg, "shape": shape, "query_is_dir_somewhere": false}
			for _, t := range v.Stack {
				if (p == "/a" && t.A == "dir") || (p == "/b" && t.B == "dir") || (p == "/a/b" && t.AB == "dir") || (p == "/a/a" && t.AA == "dir") || p == "/" {
					sig["query_is_dir_somewhere"] = true
				}
			}
			var ex bool
			func() {
				defer func() {
					if r := recover(); r != nil {
						ex = false
						sig["panic"] = fmt.Sprint(r)
					}
				}()
				ex = l.Exists(p)
			}()
			if ex != q.Exists {
				return Result{Sig: sig, Key: key, Observed: ex, Expected: q.Exists,
					Detail: fmt.Sprintf("[%s/%s] Exists(%q) = %v, spec %v", asg, shape, p, ex, q.Exists)}
			}
			if q.Exists {
				got, err := readAllLoader(l, p)
				want := content[q.Owner-1] + p
				if err != nil || got != want {
					return Result{Sig: sig, Key: key, Observed: got, Expected: want,
						Detail: fmt.Sprintf("[%s/%s] Exists(%q) is true but Open yields %q, %v; stored content is %q", asg, shape, p, got, err, want)}
				}
			}
		}
	}
	// a name that spells the loader's own directory (or a sibling sharing its prefix) is a name like any other:
	// it is looked up below the root, where nothing of that name exists
	if len(v.Stack) == 1 {
		t := v.Stack[0]
		dir := t.materialise()
		os.MkdirAll(dir+"-sib/a", 0o755)
		os.WriteFile(dir+"-sib/b", []byte("SIB"), 0o644)
		os.WriteFile(dir+"-sib/a/a", []byte("SIB"), 0o644)
		l := jet.NewOSFileSystemLoader(dir)
		for _, rel := range []string{"a", "b", "a/a", "a/b"} {
			for _, name := range []string{dir + "/" + rel, dir + "-sib/" + rel, `/..\` + filepath.Base(dir) + `-sib\` + strings.ReplaceAll(rel, "/", `\`)} { // clean absolute names, as a Set hands them over
				if l.Exists(name) {
					return Result{Sig: map[string]interface{}{"loader": "os", "shape": "single-own-directory-in-name", "query_is_dir_somewhere": false}, Key: key,
						Observed: true, Expected: false,
						Detail: fmt.Sprintf("[os] Exists(%q) = true for a loader rooted at %q: there is no such file below the root", name, dir)}
				}
			}
		}
	}
	// a directory-rooted loader reports the regular files of its tree as it is NOW: one loader instance over a
	// private copy of the tree, queried, then the tree changes under it (file removed / replaced by a directory /
	// written again)
	if len(v.Stack) == 1 {
		t := v.Stack[0]
		for _, kind := range []string{"os", "http"} {
			dir, err := os.MkdirTemp(c19Root, "dyn-")
			if err != nil {
				return Result{Detail: "harness: " + err.Error()}
			}
			files := []string{}
			for _, e := range [][2]string{{"a", t.A}, {"b", t.B}, {"a/a", t.AA}, {"a/b", t.AB}} {
				switch e[1] {
				case "dir":
					os.MkdirAll(filepath.Join(dir, e[0]), 0o755)
				case "file":
					os.WriteFile(filepath.Join(dir, e[0]), []byte("v1:"+e[0]), 0o644)
					files = append(files, e[0])
				}
			}
			var l jet.Loader = jet.NewOSFileSystemLoader(dir)
			if kind == "http" {
				hl, err := httpfs.NewLoader(http.Dir(dir))
				if err != nil {
					return Result{Detail: "harness: " + err.Error()}
				}
				l = hl
			}
			sig := map[string]interface{}{"loader": kind, "shape": "single-changing-tree", "query_is_dir_somewhere": false}
			step := func(what, rel string, wantExists bool, wantContent string) *Result {
				ex := l.Exists("/" + rel)
				got := ""
				if ex {
					got, _ = readAllLoader(l, "/"+rel)
				}
				if ex != wantExists || (ex && got != wantContent) {
					return &Result{Sig: sig, Key: key, Observed: map[string]interface{}{"exists": ex, "content": got}, Expected: map[string]interface{}{"exists": wantExists, "content": wantContent},
						Detail: fmt.Sprintf("[%s] %s: Exists(/%s) = %v, content %q; the tree now has exists=%v content %q", kind, what, rel, ex, got, wantExists, wantContent)}
				}
				return nil
			}
			for _, f := range files {
				full := filepath.Join(dir, f)
				if r := step("initially", f, true, "v1:"+f); r != nil {
					return *r
				}
				os.Remove(full)
				if r := step("after the file was removed", f, false, ""); r != nil {
					return *r
				}
				os.Mkdir(full, 0o755)
				if r := step("after a directory took its place", f, false, ""); r != nil {
					return *r
				}
				os.Remove(full)
				os.WriteFile(full, []byte("v2:"+f), 0o644)
				if r := step("after it was written again", f, true, "v2:"+f); r != nil {
					return *r
				}
			}
			// symbolic links are followed, by Exists as by Open: a link to a directory or to nothing is no template
			os.Mkdir(filepath.Join(dir, "zdir"), 0o755)
			os.Symlink(filepath.Join(dir, "zdir"), filepath.Join(dir, "lnkdir"))
			os.Symlink(filepath.Join(dir, "nowhere"), filepath.Join(dir, "dangling"))
			os.WriteFile(filepath.Join(dir, "ztarget"), []byte("v1:ztarget"), 0o644)
			os.Symlink(filepath.Join(dir, "ztarget"), filepath.Join(dir, "lnkfile"))
			for _, e := range []struct {
				rel, content string
				exists       bool
			}{{"lnkdir", "", false}, {"dangling", "", false}, {"lnkfile", "v1:ztarget", true}} {
				if r := step("symbolic link", e.rel, e.exists, e.content); r != nil {
					return *r
				}
			}
			// a regular file is a template whatever its name looks like: dots in a row, blanks, multi-byte letters,
			// characters that mean something in a URL
			for _, rel := range []string{"v1..2/x", "list..item", "more...jet", "..hidden", "sp ace", "ünï/é", "a%20b", "a+b", "#frag", "q?x=1", "a.b.c/.d"} {
				full := filepath.Join(dir, filepath.FromSlash(rel))
				os.MkdirAll(filepath.Dir(full), 0o755)
				os.WriteFile(full, []byte("v1:"+rel), 0o644)
				if r := step("a file with an unusual name", rel, true, "v1:"+rel); r != nil {
					return *r
				}
			}
			os.RemoveAll(dir)
		}
	}
	return Result{OK: true, Key: key}
}

// ---- multi loader over members that change (spec/JetMulti.tla) ---------------------------------

type c19MultiVec struct {
	N    int `json:"n"`
	Hist []struct {
		Op  string `json:"op"`
		L   int    `json:"l"`
		P   string `json:"p"`
		Ans string `json:"ans"`
	} `json:"hist"`
}

func c19MultiReplay(i int, raw json.RawMessage) Result {
	var v c19MultiVec
	if err := json.Unmarshal(raw, &v); err != nil {
		return Result{Detail: "bad vector: " + err.Error()}
	}
	key := string(raw)
	// outer = multi(inner, last member); inner = multi(member 1) and changes while the outer one is in use
	mems := make([]*jet.InMemLoader, v.N)
	for k := range mems {
		mems[k] = jet.NewInMemLoader()
	}
	inner := multi.NewLoader(mems[0])
	m := multi.NewLoader()
	m.AddLoaders(inner, mems[v.N-1])
	for k, h := range v.Hist {
		p := "/" + h.P
		sig := map[string]interface{}{"loader": "multi-of-inmem", "kind": "history", "op": h.Op}
		var got string
		switch h.Op {
		case "set":
			mems[h.L-1].Set(p, h.Ans)
			continue
		case "delete":
			mems[h.L-1].Delete(p)
			continue
		case "addinner":
			inner.AddLoaders(mems[h.L-1])
			continue
		case "clearinner":
			inner.ClearLoaders()
			continue
		case "exists":
			got = "no"
			if m.Exists(p) {
				got = "yes"
			}
		case "open":
			rc, err := m.Open(p)
			if err != nil {
				got = "ERR"
			} else {
				b, _ := io.ReadAll(rc)
				rc.Close()
				got = string(b)
			}
		}
		if got != h.Ans {
			return Result{Sig: sig, Key: key, Observed: got, Expected: h.Ans,
				Detail: fmt.Sprintf("step %d: %s(%s) through the multi loader answered %q, the first member that has the path now gives %q", k+1, h.Op, p, got, h.Ans)}
		}
	}
	return Result{OK: true, Key: key}
}

func init() {
	commands["replay-C19multi"] = func(a []string) int { return replayLoop(a[0], a[1], c19MultiReplay) }
	commands["replay-C19mem"] = func(a []string) int { return replayLoop(a[0], a[1], c19MemReplay) }
	commands["replay-C19fs"] = func(a []string) int {
		d, err := os.MkdirTemp("", "jv-c19-")
		if err != nil {
			return 2
		}
		defer os.RemoveAll(d)
		c19Root = d
		return replayLoop(a[0], a[1], c19FSReplay)
	}
}

// record-C19mem <out.ndjson> <seed> <ntraces> <len>
func c19MemRecord(a []string) int {
	out, seed, ntr, ln := a[0], atoi(a[1]), atoi(a[2]), atoi(a[3])
	f, err := os.Create(out)
	if err != nil {
		return 2
	}
	defer f.Close()
	enc := json.NewEncoder(f)
	rng := newRand(int64(seed))
	segs := []string{"a", "b", ".", "..", "", "a", "b"}
	for t := 0; t < ntr; t++ {
		enc.Encode(map[string]interface{}{"op": "init", "abs": false, "segs": []string{}})
		l := jet.NewInMemLoader()
		for k := 0; k < ln; k++ {
			abs := rng.Intn(2) == 0
			var sg []string
			for j, m := 0, 1+rng.Intn(5); j < m; j++ {
				sg = append(sg, segs[rng.Intn(len(segs))])
			}
			sp := spell(abs, sg)
			ev := map[string]interface{}{"abs": abs, "segs": sg}
			switch r := rng.Intn(10); {
			case r < 3:
				c := fmt.Sprintf("c%d", rng.Intn(50))
				l.Set(sp, c)
				ev["op"], ev["c"] = "Set", c
			case r < 5:
				l.Delete(sp)
				ev["op"] = "Delete"
			default:
				ev["op"] = "Query"
				ev["exists"] = l.Exists(sp)
				c, err := readAllLoader(l, sp)
				ev["openok"], ev["content"] = err == nil, c
			}
			enc.Encode(ev)
		}
	}
	return 0
}

func init() { commands["record-C19mem"] = c19MemRecord }

package main

import (
	"encoding/json"
	"fmt"
	"os"
	"reflect"
	"sort"
	"strings"

	"github.com/CloudyKit/jet/v6"
	"github.com/CloudyKit/jet/v6/utils"
)

type c20Vec struct {
	Src string   `json:"src"`
	Pre []string `json:"pre"`
}

// containers: may be handed to the visitor or not ("at most once")
var c20Containers = map[string]bool{"ListNode": true, "catchNode": true}

type c20Visitor struct {
	kinds []string
	seen  map[jet.Node]int
}

type tooManyVisits struct{ kind string }

func (v *c20Visitor) Visit(vc utils.VisitorContext, n jet.Node) {
	if n == nil || (reflect.ValueOf(n).Kind() == reflect.Ptr && reflect.ValueOf(n).IsNil()) {
		panic(fmt.Errorf("Walk handed the visitor a nil node"))
	}
	kind := reflect.TypeOf(n).Elem().Name()
	v.seen[n]++
	if v.seen[n] > 20 {
		// the same node over and over: unbounded recursion (stopped here, it would overflow the stack)
		panic(tooManyVisits{kind})
	}
	v.kinds = append(v.kinds, kind)
	vc.Visit(n) // descend
}

func bagOf(kinds []string) string {
	m := map[string]int{}
	for _, k := range kinds {
		if !c20Containers[k] {
			m[k]++
		}
	}
	keys := []string{}
	for k := range m {
		keys = append(keys, fmt.Sprintf("%s*%d", k, m[k]))
	}
	sort.Strings(keys)
	return strings.Join(keys, " ")
}

func c20Replay(i int, raw json.RawMessage) Result {
	var v c20Vec
	if err := json.Unmarshal(raw, &v); err != nil {
		return Result{Detail: "bad vector: " + err.Error()}
	}
	l := jet.NewInMemLoader()
	l.Set("/w.jet", v.Src)
	l.Set("/s.jet", "x")
	set := jet.NewSet(l)
	t, err := set.GetTemplate("/w.jet")
	if i == 0 && os.Getenv("VERIF_TRACE") == "" {
		if r := c20AfterExecute(); r != nil {
			return *r
		}
	}
	reject := len(v.Pre) == 1 && v.Pre[0] == "REJECT" // not a production of the grammar: the parser should refuse it
	if err != nil {
		if reject {
			return Result{OK: true, Key: v.Src}
		}
		return Result{Detail: "harness: generated template does not parse: " + v.Src + ": " + err.Error()}
	}
	if i%2 == 1 {
		// the walk visits what the source says, whatever walks there were before: a visitor abandons a walk half way
		// (and the program recovers) before the walk that is judged
		func() {
			defer func() { recover() }()
			n := 0
			utils.Walk(t, utils.VisitorFunc(func(vc utils.VisitorContext, node jet.Node) {
				if n++; n > 3 {
					panic("visitor gives up")
				}
				vc.Visit(node)
			}))
		}()
	}
	vis := &c20Visitor{seen: map[jet.Node]int{}}
	var panicked interface{}
	func() {
		defer func() { panicked = recover() }()
		utils.Walk(t, vis)
	}()
	// which node kinds of the template are involved (for the finding signature)
	inv := map[string]bool{}
	for _, k := range v.Pre {
		switch k {
		case "TryNode", "ReturnNode", "UnderscoreNode", "IncludeNode":
			inv[k] = true
		}
	}
	if reject {
		inv["stray"] = true
	}
	for _, marker := range []string{"[:", ":]", "-(", "yield content"} {
		if strings.Contains(v.Src, marker) {
			inv[marker] = true
		}
	}
	involved := []string{}
	for k := range inv {
		involved = append(involved, k)
	}
	sort.Strings(involved)
	sig := map[string]interface{}{"involves": strings.Join(involved, ",")}
	if panicked != nil {
		sig["kind"] = "panic"
		if tm, ok := panicked.(tooManyVisits); ok {
			sig["kind"] = "nontermination"
			panicked = "node " + tm.kind + " visited over and over"
		}
		return Result{Sig: sig, Key: v.Src, Observed: fmt.Sprint(panicked), Detail: fmt.Sprintf("Walk on %s: %v", v.Src, panicked)}
	}
	for n, c := range vis.seen {
		if c > 1 {
			sig["kind"] = "twice"
			return Result{Sig: sig, Key: v.Src, Detail: fmt.Sprintf("Walk on %s visited a %T %d times", v.Src, n, c)}
		}
	}
	if reject {
		// accepted after all: the walk above neither panicked nor looped, which is all C20 asks of an accepted template
		return Result{OK: true, Key: v.Src}
	}
	if got, want := bagOf(vis.kinds), bagOf(v.Pre); got != want {
		sig["kind"] = "missed"
		return Result{Sig: sig, Key: v.Src, Observed: got, Expected: want,
			Detail: fmt.Sprintf("Walk on %s visited {%s}, the template has {%s}", v.Src, got, want)}
	}
	return Result{OK: true, Key: v.Src}
}

func init() {
	commands["replay-C20"] = func(a []string) int { return replayLoop(a[0], a[1], c20Replay) }
}

// c20Print: what one walk of t sees, node by node (type, position, text).
func c20Print(t *jet.Template) (out []string, panicked interface{}) {
	defer func() { panicked = recover() }()
	utils.Walk(t, utils.VisitorFunc(func(vc utils.VisitorContext, n jet.Node) {
		if len(out) > 100000 {
			panic("walk does not end")
		}
		out = append(out, fmt.Sprintf("%T@%d %s", n, n.Position(), n.String()))
		vc.Visit(n)
	}))
	return out, nil
}

// c20AfterExecute: history probe. The nodes Walk reaches are those of the parsed template - before and after the
// template was executed (once, twice), whatever the executed calls did with their arguments. Executions of a fixed
// catalogue only (arbitrary generated templates may recurse without bound).
func c20AfterExecute() *Result {
	argLists := []string{"", "1", "1, 2", "1, 2, 3", "1, 2, 3, 4", "1, 2, 3, 4, 5", "1, 2, 3, 4, 5, 6", "1, 2, 3, 4, 5, 6, 7", "1, 2, 3, 4, 5, 6, 7, 8"}
	srcs := []string{}
	for _, a := range argLists {
		for _, fn := range []string{"f", "g"} {
			colon := ""
			if a != "" {
				colon = ": " + a
			}
			srcs = append(srcs,
				`{{ "p" | `+fn+colon+` }}`,
				`{{ "p" | `+fn+`(`+a+`) }}`,
				`{{ `+fn+`(`+a+`) }}`,
				`{{ "p" | `+fn+colon+` | `+fn+colon+` }}`)
			if a != "" {
				srcs = append(srcs, `{{ "p" | `+fn+`: _, `+a+` }}`, `{{ "p" | `+fn+`(`+a+`, _) }}`)
			}
		}
	}
	srcs = append(srcs,
		`{{ block b(x=1, y="s") }}[{{ x }}{{ y }}{{ yield content }}]{{ end }}{{ yield b(x=2) content }}c{{ end }}{{ yield b(y=3, x=4) }}`,
		`{{ range i, v := xs }}{{ i }}={{ v | f: i, v, 1 }}{{ else }}none{{ end }}`,
		`{{ if len(xs) > 2 && isset(xs[1]) }}{{ xs[1:] | f: xs[:2], xs[1:2] }}{{ else if m.k }}k{{ else }}e{{ end }}`,
		`{{ try }}{{ xs[9] }}{{ catch e }}{{ "c" | f: e, 1, 2 }}{{ end }}{{ include "/s.jet" m }}{{ return m.k ? f(1,2,3) : g(1) }}`,
		`{{ a := map("k", 1, "l", 2) }}{{ s := slice(1, 2, 3) }}{{ a.k + s[0] | f: a, s, s[1] }}{{ a["l"] = 5 }}{{ a.l }}`,
		`{{ "x" | upper | f: "a", "b", "c" | raw }}{{ -xs[0] | g: !m.k, 1 }}{{ isset(m.k, xs) ? "y" : "n" }}`,
		`{{ "p" | m.fn: 1, 2, 3 }}{{ "p" | m.fn: 1, 2, 3, 4, 5 }}{{ exec "/s.jet" m }}`)
	for k, src := range srcs {
		l := jet.NewInMemLoader()
		l.Set("/w.jet", src)
		l.Set("/s.jet", `s{{ "q" | f: ., 2, 3 }}`)
		set := jet.NewSet(l)
		f := jet.Func(func(a jet.Arguments) reflect.Value {
			n := a.NumOfArguments()
			s := fmt.Sprint(n)
			for i := 0; i < n; i++ {
				s += fmt.Sprint(" ", a.IsSet(i), a.Get(i))
			}
			return reflect.ValueOf(s)
		})
		set.AddGlobalFunc("f", f)
		set.AddGlobal("g", func(a ...interface{}) string { return fmt.Sprint(a...) })
		t, err := set.GetTemplate("/w.jet")
		if err != nil {
			continue // not a form of the grammar
		}
		before, p := c20Print(t)
		if p != nil {
			continue // judged by the vectors
		}
		text := t.Root.String()
		outs := []string{}
		for round := 1; round <= 2; round++ {
			var b strings.Builder
			vars := jet.VarMap{}
			vars.Set("xs", []int{3, 4, 5})
			vars.Set("m", map[string]interface{}{"k": true, "fn": f})
			err := safeExecute(t, &b, vars, nil)
			outs = append(outs, fmt.Sprintf("%q err=%v", b.String(), err != nil))
			after, p := c20Print(t)
			obs := strings.Join(after, "\n")
			if p != nil {
				obs = fmt.Sprint("panic: ", p)
			}
			if want := strings.Join(before, "\n"); obs != want || t.Root.String() != text {
				return &Result{Sig: map[string]interface{}{"kind": "changed-by-execution", "involves": "history"}, Key: fmt.Sprintf("history-%d", k),
					Observed: obs + "\n" + t.Root.String(), Expected: want + "\n" + text,
					Detail: fmt.Sprintf("Walk on %s after %d execution(s) no longer reaches the nodes of the parsed template (outputs %v)", src, round, outs)}
			}
		}
	}
	return nil
}

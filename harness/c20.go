package main

import (
	"encoding/json"
	"fmt"
	"reflect"
	"sort"
	"strings"

	"github.com/CloudyKit/jet/v6"
	"github.com/CloudyKit/jet/v6/utils"
)

type c20Vec struct {
	Src string   `json:"src"`
	Pre []string `json:"pre"`
}

// containers: may be handed to the visitor or not ("at most once")
var c20Containers = map[string]bool{"ListNode": true, "catchNode": true}

type c20Visitor struct {
	kinds []string
	seen  map[jet.Node]int
}

type tooManyVisits struct{ kind string }

func (v *c20Visitor) Visit(vc utils.VisitorContext, n jet.Node) {
	if n == nil || (reflect.ValueOf(n).Kind() == reflect.Ptr && reflect.ValueOf(n).IsNil()) {
		panic(fmt.Errorf("Walk handed the visitor a nil node"))
	}
	kind := reflect.TypeOf(n).Elem().Name()
	v.seen[n]++
	if v.seen[n] > 20 {
		// the same node over and over: unbounded recursion (stopped here, it would overflow the stack)
		panic(tooManyVisits{kind})
	}
	v.kinds = append(v.kinds, kind)
	vc.Visit(n) // descend
}

func bagOf(kinds []string) string {
	m := map[string]int{}
	for _, k := range kinds {
		if !c20Containers[k] {
			m[k]++
		}
	}
	keys := []string{}
	for k := range m {
		keys = append(keys, fmt.Sprintf("%s*%d", k, m[k]))
	}
	sort.Strings(keys)
	return strings.Join(keys, " ")
}

func c20Replay(i int, raw json.RawMessage) Result {
	var v c20Vec
	if err := json.Unmarshal(raw, &v); err != nil {
		return Result{Detail: "bad vector: " + err.Error()}
	}
	l := jet.NewInMemLoader()
	l.Set("/w.jet", v.Src)
	l.Set("/s.jet", "x")
	set := jet.NewSet(l)
	t, err := set.GetTemplate("/w.jet")
	reject := len(v.Pre) == 1 && v.Pre[0] == "REJECT" // not a production of the grammar: the parser should refuse it
	if err != nil {
		if reject {
			return Result{OK: true, Key: v.Src}
		}
		return Result{Detail: "harness: generated template does not parse: " + v.Src + ": " + err.Error()}
	}
	if i%2 == 1 {
		// the walk visits what the source says, whatever walks there were before: a visitor abandons a walk half way
		// (and the program recovers) before the walk that is judged
		func() {
			defer func() { recover() }()
			n := 0
			utils.Walk(t, utils.VisitorFunc(func(vc utils.VisitorContext, node jet.Node) {
				if n++; n > 3 {
					panic("visitor gives up")
				}
				vc.Visit(node)
			}))
		}()
	}
	vis := &c20Visitor{seen: map[jet.Node]int{}}
	var panicked interface{}
	func() {
		defer func() { panicked = recover() }()
		utils.Walk(t, vis)
	}()
	// which node kinds of the template are involved (for the finding signature)
	inv := map[string]bool{}
	for _, k := range v.Pre {
		switch k {
		case "TryNode", "ReturnNode", "UnderscoreNode", "IncludeNode":
			inv[k] = true
		}
	}
	if reject {
		inv["stray"] = true
	}
	for _, marker := range []string{"[:", ":]", "-(", "yield content"} {
		if strings.Contains(v.Src, marker) {
			inv[marker] = true
		}
	}
	involved := []string{}
	for k := range inv {
		involved = append(involved, k)
	}
	sort.Strings(involved)
	sig := map[string]interface{}{"involves": strings.Join(involved, ",")}
	if panicked != nil {
		sig["kind"] = "panic"
		if tm, ok := panicked.(tooManyVisits); ok {
			sig["kind"] = "nontermination"
			panicked = "node " + tm.kind + " visited over and over"
		}
		return Result{Sig: sig, Key: v.Src, Observed: fmt.Sprint(panicked), Detail: fmt.Sprintf("Walk on %s: %v", v.Src, panicked)}
	}
	for n, c := range vis.seen {
		if c > 1 {
			sig["kind"] = "twice"
			return Result{Sig: sig, Key: v.Src, Detail: fmt.Sprintf("Walk on %s visited a %T %d times", v.Src, n, c)}
		}
	}
	if reject {
		// accepted after all: the walk above neither panicked nor looped, which is all C20 asks of an accepted template
		return Result{OK: true, Key: v.Src}
	}
	if got, want := bagOf(vis.kinds), bagOf(v.Pre); got != want {
		sig["kind"] = "missed"
		return Result{Sig: sig, Key: v.Src, Observed: got, Expected: want,
			Detail: fmt.Sprintf("Walk on %s visited {%s}, the template has {%s}", v.Src, got, want)}
	}
	return Result{OK: true, Key: v.Src}
}

func init() {
	commands["replay-C20"] = func(a []string) int { return replayLoop(a[0], a[1], c20Replay) }
}

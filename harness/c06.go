package main

import (
	"bytes"
	"encoding/json"
	"fmt"
	"reflect"
	"sort"
	"strconv"
	"strings"

	"github.com/CloudyKit/jet/v6"
)

// ---- the Go side of spec/JetAccess.tla's object table ------------------------------------

type NamedKey string

type Core struct {
	Alpha string
	Beta  string
	Gamma string
}

type Inner struct {
	Name   string
	Deep   string
	hidden int
	Core
}

func (Inner) InnerM() string { return "inner.InnerM" }

type c06Namer interface{ InnerM() string }

type PInner struct{ PName string }

type Outer struct {
	Name  string
	Age   int
	Zero  int
	Empty string
	F     bool
	Inner
	*PInner
	Tags   []string
	M      map[string]int
	P      *Inner
	NilP   *Inner
	I      interface{}
	NI     c06Namer // a non-empty interface type holding the same Inner: its fields and other methods are reachable all the same
	NilI   interface{}
	secret string
	Arr    [2]string
	S      string
	MN     map[NamedKey]string
	MI     map[int]string
	NilM   map[string]int
}

func c06Twin1() interface{} {
	type T struct{ A, B string }
	return T{A: "1A", B: "1B"}
}

func c06Twin2() interface{} {
	type T struct{ B, A string }
	return T{B: "2B", A: "2A"}
}

// c06Boom: a method that dereferences its (nil) receiver - a Go run-time error, not an error Jet raises
type c06Boom struct{ Name string }

func (b *c06Boom) BoomM() c06Boom { return c06Boom{Name: b.Name + "!"} }

func (Outer) ValM() string  { return "outer.ValM" }
func (*Outer) PtrM() string { return "outer.PtrM" }

type Top struct {
	TopName string
	Outer
}

func mkOuter(withPInner bool) Outer {
	core := Core{"core.Alpha", "core.Beta", "core.Gamma"}
	in := Inner{Name: "inner.Name", Deep: "inner.Deep", hidden: 1, Core: core}
	o := Outer{Name: "outer.Name", Age: 42, Inner: in, Tags: append(make([]string, 0, 16), "t0", "t1", "t2", "HIDDEN", "HIDDEN")[:3], // spare capacity: nothing behind len may be reachable
		M: map[string]int{"a": 1, "zero": 0, "": 42},
		P: &Inner{Name: "inner.Name", Deep: "inner.Deep", hidden: 1, Core: core}, I: in, NI: in, secret: "secret", Arr: [2]string{"a0", "a1"}, S: "hi",
		MN: map[NamedKey]string{"k": "mn.k"}, MI: map[int]string{1: "mi.1"}}
	if withPInner {
		o.PInner = &PInner{PName: "pinner.PName"}
	}
	return o
}

func c06Roots() map[string]interface{} {
	o := mkOuter(true)
	o2 := mkOuter(false)
	po := &o
	return map[string]interface{}{
		"outer": o, "p_outer": po, "pp_outer": &po, "nilp": (*Inner)(nil), "outer2": o2, "p_outer2": &o2,
		"m": o.M, "mn": o.MN, "mi": o.MI, "mp": map[string]*Outer{"o": po, "n": nil}, "tags": o.Tags, "arr": o.Arr,
		"outers": append(make([]Outer, 0, 12), o, o)[:1], "s:hi": "hi", "nil": nil, "nilmap": map[string]int(nil), "i_inner": o.I, "inner": o.Inner, "pinner": *o.PInner, "core": o.Inner.Core, "top": Top{TopName: "top.TopName", Outer: o},
	}
}

type c06Step struct {
	T   string `json:"t"`
	N   string `json:"n"`
	I   int    `json:"i"`
	J   int    `json:"j"`
	Syn string `json:"syn"`
}
type c06Vec struct {
	Root    string    `json:"root"`
	Path    []c06Step `json:"path"`
	Outcome struct {
		Kind string `json:"kind"`
		Txt  string `json:"txt"`
		Base string `json:"base"`
		Lo   int    `json:"lo"`
		Hi   int    `json:"hi"`
	} `json:"outcome"`
	IsSet      bool                       `json:"isset"`
	KeyPresent string                     `json:"keypresent"`
	Catalogue  map[string]json.RawMessage `json:"catalogue"`
	Hostile    []string                   `json:"hostile"`
}

func c06Expr(v *c06Vec) string {
	var b strings.Builder
	b.WriteString("root")
	for _, s := range v.Path {
		switch s.T {
		case "name":
			if s.Syn == "dot" {
				b.WriteString("." + s.N)
			} else {
				b.WriteString("[" + strconv.Quote(s.N) + "]")
			}
		case "call":
			b.WriteString("." + s.N + "()")
		case "idx":
			b.WriteString("[" + strconv.Itoa(s.I) + "]")
		case "sidx":
			b.WriteString("[" + strconv.Quote(s.N) + "]")
		case "slice":
			lo, hi := "", ""
			if s.I >= 0 {
				lo = strconv.Itoa(s.I)
			}
			if s.J >= 0 {
				hi = strconv.Itoa(s.J)
			}
			b.WriteString("[" + lo + ":" + hi + "]")
		}
	}
	return b.String()
}

var c06Set *jet.Set
var c06RootVals map[string]interface{}

func c06Init() {
	c06Loader := jet.NewInMemLoader()
	// fails while '.' is rebound by a range: isset(exec("/failrange.jet").x) swallows that
	c06Loader.Set("/failrange.jet", `{{ range ints(0, 2) }}{{ nosuchvariable }}{{ end }}`)
	c06Set = jet.NewSet(c06Loader, jet.WithSafeWriter(nil))
	// a global of the same name as the Execute variable every path starts from: the variable always shadows it,
	// also when its value is nil
	c06Set.AddGlobal("root", "GLOBAL-ROOT")
	c06Set.AddGlobal("imap", map[interface{}]string{"a": "b"})
	c06Set.AddGlobal("gzero", 0)
	c06Set.AddGlobal("pnil", (*c06Boom)(nil))
	c06RootVals = c06Roots()
}

func c06Render(src, root string) (string, error) {
	t, err := c06Set.Parse("/a.jet", src)
	if err != nil {
		return "", fmt.Errorf("PARSE: %v", err)
	}
	vars := jet.VarMap{}
	vars.Set("root", c06RootVals[root])
	var b bytes.Buffer
	err = safeExecute(t, &b, vars, c06RootVals[root]) // '.' is the same value as root
	return b.String(), err
}

// the printed form of a sub-slice of a catalogue sequence
func c06SubText(base string, lo, hi int) string {
	switch base {
	case "tags":
		return fmt.Sprint([]string{"t0", "t1", "t2"}[lo:hi])
	case "arr":
		return fmt.Sprint([]string{"a0", "a1"}[lo:hi])
	case "s:hi":
		return "hi"[lo:hi]
	case "outers":
		return "COMPOSITE"
	}
	return "?"
}

// c06IssetOnly: replay for C17 - the access outcome is C06's business and is not judged, so that isset of a
// path is evaluated even when the access itself misbehaves
var c06IssetOnly = false

// c06AfterEarlier: what a path or isset yields depends on THIS execution's data and variables only - not on an earlier
// execution that had data and variables and ended normally, with an error, or with a panic Execute passes on
type C06Addr struct {
	Label *string
	Zip   string
}
type c06Shadow struct {
	Label *string
	C06Addr
}

func c06AfterEarlier() *Result {
	parse := func(src string) *jet.Template {
		t, err := c06Set.Parse("/h.jet", src)
		if err != nil {
			panic("harness: " + err.Error())
		}
		return t
	}
	exec := func(t *jet.Template, vars jet.VarMap, data interface{}) (string, error) {
		var b bytes.Buffer
		err := safeExecute(t, &b, vars, data)
		return b.String(), err
	}
	mk := func() jet.VarMap {
		return jet.VarMap{}.Set("root", c06RootVals["outer"]).Set("title", "T").Set("zero", 0)
	}
	// a field of the struct itself wins over a field of the same name promoted from an embedded struct - also when
	// the embedded type was rendered on its own before (the process-wide field tables are built per type)
	own := "own"
	exec(parse(`{{ isset(.Label) }}{{ .Label }}`), nil, C06Addr{})
	if out, err := exec(parse(`{{ isset(.Label) }}|{{ isset(.C06Addr.Label) }}|{{ .Zip }}`), nil, c06Shadow{Label: &own, C06Addr: C06Addr{Zip: "z"}}); err != nil || out != "true|false|z" {
		kind := "access-shadowed-field"
		if c06IssetOnly {
			kind = "isset-shadowed-field"
		}
		return &Result{Sig: map[string]interface{}{"kind": kind, "earlier": "embedded type rendered first", "root": "", "expect": "", "laststep": "", "lastname": ""}, Key: "history",
			Observed: out, Expected: "true|false|z",
			Detail: fmt.Sprintf("struct{Label *string (set); C06Addr{Label *string (nil); Zip}}: isset(.Label)|isset(.C06Addr.Label)|.Zip rendered %q (err %v), want %q", out, err, "true|false|z")}
	}
	probeIsset := parse(`{{ isset(title) }}|{{ isset(zero) }}|{{ isset(a) }}|{{ isset(b) }}|{{ isset(.Name) }}|{{ isset(.) }}`)
	probeAccess := parse(`[{{ .Name }}]`)
	for _, earlier := range []struct{ name, src string }{
		{"ended normally", `{{ .Name }}{{ if a := 1; a }}{{ range b := root.Tags }}{{ b }}{{ end }}{{ end }}`},
		{"failed inside nested scopes", `{{ .Name }}{{ if a := 1; a }}{{ range b := root.Tags }}{{ nosuchfunction() }}{{ end }}{{ end }}`},
		{"panicked (integer division by zero) inside nested scopes", `{{ .Name }}{{ if a := 1; a }}{{ range b := root.Tags }}{{ root.Age % zero }}{{ end }}{{ end }}`},
	} {
		te := parse(earlier.src)
		// the Runtime is pooled per P: a few rounds, so that a migration of this goroutine cannot hide anything
		for round := 0; round < 8; round++ {
			exec(te, mk(), c06RootVals["outer"])
			if c06IssetOnly {
				out, err := exec(probeIsset, nil, nil)
				if want := "false|false|false|false|false|false"; err != nil || out != want {
					return &Result{Sig: map[string]interface{}{"kind": "isset-after-earlier-execution", "earlier": earlier.name, "root": "", "expect": "", "laststep": "", "lastname": ""}, Key: "history",
						Observed: out, Expected: want,
						Detail: fmt.Sprintf("after an execution that %s, an execution without variables and data rendered %q (err %v) for isset of its names and of '.', want %q", earlier.name, out, err, want)}
				}
			} else if out, err := exec(probeAccess, nil, nil); err == nil {
				return &Result{Sig: map[string]interface{}{"kind": "access-after-earlier-execution", "earlier": earlier.name, "root": "", "expect": "", "laststep": "", "lastname": ""}, Key: "history",
					Observed: out, Expected: "an error",
					Detail: fmt.Sprintf("after an execution that %s, {{ .Name }} in an execution WITHOUT data rendered %q; there is no '.' to take a field of", earlier.name, out)}
			}
		}
	}
	return nil
}

func c06Replay(i int, raw json.RawMessage) Result {
	var v c06Vec
	if err := json.Unmarshal(raw, &v); err != nil {
		return Result{Detail: "bad vector: " + err.Error()}
	}
	if c06Set == nil {
		c06Init()
		// the embedded struct types are rendered on their own before any value that embeds them
		c06Render("{{ .Name }}{{ isset(.Name) }}", "inner")
	}
	if i%499 == 0 {
		if r := c06AfterEarlier(); r != nil {
			return *r
		}
	}
	if v.Catalogue != nil {
		if why := c06SelfCheck(v.Catalogue); why != "" {
			return Result{Detail: "harness: Go catalogue does not mirror spec/JetAccess.tla: " + why}
		}
		// two distinct struct types that print alike (same name, declared in different functions) with their fields
		// in different order: each is resolved by its own layout, in whichever order they are met
		for _, seq := range [][]int{{1, 2, 1}, {2, 1, 2}} {
			for _, which := range seq {
				val, want := c06Twin1(), "1A|1B"
				if which == 2 {
					val, want = c06Twin2(), "2A|2B"
				}
				t, err := c06Set.Parse("/twin.jet", `{{ .A }}|{{ .B }}`)
				if err != nil {
					return Result{Detail: "harness: " + err.Error()}
				}
				var b bytes.Buffer
				err = safeExecute(t, &b, nil, val)
				if err != nil || b.String() != want {
					sig := map[string]interface{}{"kind": "value", "root": "twin", "expect": "leaf", "laststep": "name", "lastname": "A"}
					return Result{Sig: sig, Key: "twins", Observed: b.String(), Expected: want,
						Detail: fmt.Sprintf("{{ .A }}|{{ .B }} on the %T declared in function %d rendered %q (err %v), its fields hold %q", val, which, b.String(), err, want)}
				}
			}
		}
		for _, h := range v.Hostile {
			for _, form := range []string{"{{ isset(" + h + ") }}", "{{ isset(root, " + h + ") }}", "{{ if isset(" + h + ") }}true{{ else }}false{{ end }}",
				"{{ isset(" + h + ") }}{{ if isset(.Name) }}{{ else }} then isset(.Name) is false{{ end }}{{ if isset(.Ghost) }} then isset(.Ghost) is true{{ end }}"} {
				out, err := c06Render(form, "outer")
				if err != nil || out != "false" {
					sig := map[string]interface{}{"kind": "isset-hostile", "root": "outer", "expect": "false", "laststep": "", "lastname": h}
					return Result{Sig: sig, Key: "hostile:" + h, Observed: map[string]interface{}{"out": out, "err": fmt.Sprint(err)}, Expected: "false",
						Detail: fmt.Sprintf("%s rendered %q (err %v): isset never fails and an argument that cannot be evaluated is not set", form, out, err)}
				}
			}
		}
		return Result{OK: true, Key: "hostile"}
	}
	expr := c06Expr(&v)
	key := v.Root + ":" + expr
	last := c06Step{T: "root"}
	if len(v.Path) > 0 {
		last = v.Path[len(v.Path)-1]
	}
	sig := map[string]interface{}{"root": v.Root, "expect": v.Outcome.Kind, "laststep": last.T, "lastname": last.N}
	// C06: the access itself
	out, err := c06Render("{{ "+expr+" }}", v.Root)
	if err != nil && strings.HasPrefix(err.Error(), "PARSE:") {
		return Result{Detail: "harness: " + expr + ": " + err.Error()}
	}
	fail := func(kind, why string) Result {
		sig["kind"] = kind
		return Result{Sig: sig, Key: key, Observed: map[string]interface{}{"out": out, "err": fmt.Sprint(err)}, Expected: v.Outcome,
			Detail: fmt.Sprintf("{{ %s }} on root %s: %s (rendered %q, err %v; spec %s %q)", expr, v.Root, why, out, err, v.Outcome.Kind, v.Outcome.Txt)}
	}
	if err != nil && strings.Contains(err.Error(), "PANIC") && !c06IssetOnly {
		return fail("panic", "Execute panicked")
	}
	kind := v.Outcome.Kind
	if c06IssetOnly {
		kind = "not judged"
	}
	switch kind {
	case "error":
		if err == nil {
			return fail("noerror", "the access must fail loudly")
		}
	case "nil":
		if err != nil || (out != "" && out != "<nil>" && out != "map[]" && out != "[]") {
			return fail("value", "must yield nil")
		}
	case "leaf":
		if err != nil || out != v.Outcome.Txt {
			return fail("value", "must yield the stored value")
		}
	case "sub":
		want := c06SubText(v.Outcome.Base, v.Outcome.Lo, v.Outcome.Hi)
		if err != nil || (want != "COMPOSITE" && out != want) {
			return fail("value", "must yield the sub-sequence "+want)
		}
	case "composite", "func":
		if err != nil {
			return fail("error", "must succeed")
		}
	}
	// C17: isset never fails and is true exactly when the path exists and is non-nil
	for _, form := range []string{"{{ isset(" + expr + ") }}", "{{ isset(root, " + expr + ") }}", "{{ if isset(" + expr + ") }}true{{ else }}false{{ end }}"} {
		if last.T == "call" || last.T == "slice" {
			break // isset takes access paths, not calls or slices
		}
		o2, e2 := c06Render(form, v.Root)
		want := fmt.Sprint(v.IsSet)
		if strings.Contains(form, "isset(root, ") && v.Root == "nil" || (strings.Contains(form, "isset(root, ") && (v.Root == "nilp" || v.Root == "nilmap")) {
			want = "false"
		}
		if e2 != nil || o2 != want {
			sig["kind"] = "isset"
			if e2 != nil && strings.Contains(e2.Error(), "PANIC") {
				sig["kind"] = "isset-panic"
			}
			return Result{Sig: sig, Key: key, Observed: map[string]interface{}{"out": o2, "err": fmt.Sprint(e2)}, Expected: want,
				Detail: fmt.Sprintf("%s on root %s rendered %q (err %v), spec %s", form, v.Root, o2, e2, want)}
		}
	}
	// piped value in an explicit slot plus a further argument: both must be looked at
	if last.T != "call" && last.T != "slice" {
		o5, e5 := c06Render("{{ 1 | isset(_, "+expr+") }}", v.Root)
		if e5 != nil || o5 != fmt.Sprint(v.IsSet) {
			sig["kind"] = "isset-slot"
			return Result{Sig: sig, Key: key, Observed: map[string]interface{}{"out": o5, "err": fmt.Sprint(e5)}, Expected: v.IsSet,
				Detail: fmt.Sprintf("{{ 1 | isset(_, %s) }} on root %s rendered %q (err %v), spec %v", expr, v.Root, o5, e5, v.IsSet)}
		}
	}
	// a value piped in WITHOUT a slot is the first argument and the written ones follow it: all of them are looked at,
	// the last one included
	if last.T != "call" && last.T != "slice" {
		for _, form := range []string{"{{ 1 | isset(" + expr + ") }}", "{{ 1 | isset: 2, " + expr + " }}", "{{ 1 | isset(" + expr + ", 2) }}"} {
			o6, e6 := c06Render(form, v.Root)
			if e6 != nil || o6 != fmt.Sprint(v.IsSet) {
				sig["kind"] = "isset-piped-args"
				return Result{Sig: sig, Key: key, Observed: map[string]interface{}{"out": o6, "err": fmt.Sprint(e6)}, Expected: v.IsSet,
					Detail: fmt.Sprintf("%s on root %s rendered %q (err %v), spec %v", form, v.Root, o6, e6, v.IsSet)}
			}
		}
	}
	// piped form: only when the access itself succeeds (the pipeline evaluates it before isset sees it)
	if v.Outcome.Kind != "error" && last.T != "call" && last.T != "slice" {
		for _, form := range []string{"{{ " + expr + " | isset }}", "{{ " + expr + " | isset(_) }}", "{{ " + expr + " | isset(root, _) }}"} {
			o3, e3 := c06Render(form, v.Root)
			want := v.IsSet && (form[len(form)-10:] != "root, _) }}" || c06RootVals[v.Root] != nil)
			if e3 != nil || o3 != fmt.Sprint(want) {
				sig["kind"] = "isset-piped"
				return Result{Sig: sig, Key: key, Observed: map[string]interface{}{"out": o3, "err": fmt.Sprint(e3)}, Expected: want,
					Detail: fmt.Sprintf("%s on root %s rendered %q (err %v), spec %v", form, v.Root, o3, e3, want)}
			}
		}
	}
	// two-value lookup
	if v.KeyPresent == "yes" || v.KeyPresent == "no" {
		o4, e4 := c06Render("{{ if v, ok := "+expr+"; ok }}yes{{ else }}no{{ end }}", v.Root)
		if e4 != nil || o4 != v.KeyPresent {
			sig["kind"] = "isset-lookup"
			return Result{Sig: sig, Key: key, Observed: map[string]interface{}{"out": o4, "err": fmt.Sprint(e4)}, Expected: v.KeyPresent,
				Detail: fmt.Sprintf("{{ if v, ok := %s; ok }} on root %s rendered %q (err %v), key present: %s", expr, v.Root, o4, e4, v.KeyPresent)}
		}
	}
	// what the lookup binds: v is declared in the if's scope whether the key is there or not (it shadows an outer v and
	// is set exactly when the path is); the outer v is untouched
	if v.KeyPresent == "yes" || v.KeyPresent == "no" {
		src := `{{ v := "outer" }}{{ if v, ok := ` + expr + `; ok }}yes:{{ isset(v) }}{{ else }}no:{{ isset(v) }}{{ end }}|{{ v }}`
		want := v.KeyPresent + ":" + fmt.Sprint(v.KeyPresent == "yes" && v.IsSet) + "|outer"
		o7, e7 := c06Render(src, v.Root)
		if e7 != nil || o7 != want {
			sig["kind"] = "isset-lookup-binding"
			return Result{Sig: sig, Key: key, Observed: map[string]interface{}{"out": o7, "err": fmt.Sprint(e7)}, Expected: want,
				Detail: fmt.Sprintf("%s on root %s rendered %q (err %v), want %q", src, v.Root, o7, e7, want)}
		}
	}
	// the same lookup assigning to declared variables ('=' form)
	if v.KeyPresent == "yes" || v.KeyPresent == "no" {
		src := "{{ v := 0 }}{{ ok := 0 }}{{ v, ok = " + expr + " }}{{ if ok }}yes{{ else }}no{{ end }}"
		o6, e6 := c06Render(src, v.Root)
		if e6 != nil || o6 != v.KeyPresent {
			sig["kind"] = "isset-lookup-set"
			return Result{Sig: sig, Key: key, Observed: map[string]interface{}{"out": o6, "err": fmt.Sprint(e6)}, Expected: v.KeyPresent,
				Detail: fmt.Sprintf("%s on root %s rendered %q (err %v), key present: %s", src, v.Root, o6, e6, v.KeyPresent)}
		}
	}
	return Result{OK: true, Key: key}
}

// c06SelfCheck compares the TLA+ object table with the Go catalogue by reflection.
func c06SelfCheck(cat map[string]json.RawMessage) string {
	type fd struct {
		N   string `json:"n"`
		Exp bool   `json:"exp"`
		Emb bool   `json:"emb"`
	}
	type md struct {
		N   string `json:"n"`
		Ptr bool   `json:"ptr"`
	}
	type desc struct {
		K  string   `json:"k"`
		Fs []fd     `json:"fs"`
		Ms []md     `json:"ms"`
		Es []string `json:"es"`
		Ks []struct {
			Key string `json:"key"`
		} `json:"ks"`
	}
	roots := c06Roots()
	for id, raw := range cat {
		var d desc
		if err := json.Unmarshal(raw, &d); err != nil {
			return err.Error()
		}
		gv, ok := roots[id]
		if !ok {
			return "no Go value for " + id
		}
		rv := reflect.ValueOf(gv)
		switch d.K {
		case "struct":
			rt := rv.Type()
			if rt.NumField() != len(d.Fs) {
				return fmt.Sprintf("%s: %d fields in Go, %d in spec", id, rt.NumField(), len(d.Fs))
			}
			for i, f := range d.Fs {
				g := rt.Field(i)
				if g.Name != f.N || (g.PkgPath == "") != f.Exp || g.Anonymous != f.Emb {
					return fmt.Sprintf("%s field %d: Go %s exported=%v embedded=%v, spec %+v", id, i, g.Name, g.PkgPath == "", g.Anonymous, f)
				}
			}
			for _, m := range d.Ms {
				_, onVal := rt.MethodByName(m.N)
				_, onPtr := reflect.PtrTo(rt).MethodByName(m.N)
				if !onPtr || onVal == m.Ptr {
					return fmt.Sprintf("%s method %s: value-set=%v pointer-set=%v, spec ptr-receiver=%v", id, m.N, onVal, onPtr, m.Ptr)
				}
			}
		case "slice", "array", "str":
			if rv.Len() != len(d.Es) {
				return fmt.Sprintf("%s: length %d in Go, %d in spec", id, rv.Len(), len(d.Es))
			}
		case "map":
			keys := []string{}
			for _, k := range rv.MapKeys() {
				keys = append(keys, fmt.Sprint(k.Interface()))
			}
			sort.Strings(keys)
			want := []string{}
			for _, k := range d.Ks {
				want = append(want, k.Key)
			}
			sort.Strings(want)
			if strings.Join(keys, ",") != strings.Join(want, ",") {
				return fmt.Sprintf("%s: keys %v in Go, %v in spec", id, keys, want)
			}
		}
	}
	return ""
}

func init() {
	commands["replay-C06"] = func(a []string) int { return replayLoop(a[0], a[1], c06Replay) }
	commands["replay-C17"] = func(a []string) int {
		c06IssetOnly = true
		return replayLoop(a[0], a[1], c06Replay)
	}
}

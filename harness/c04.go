package main

import (
	"bytes"
	"encoding/json"
	"fmt"
	"math"
	"math/big"
	"os"
	"reflect"
	"sort"
	"strconv"
	"strings"
	"time"

	"github.com/CloudyKit/jet/v6"
)

type c04Val struct {
	T string `json:"t"`
	N int64  `json:"n"`
	D int64  `json:"d"`
	S string `json:"s"`
}
type c04Vec struct {
	Shape  string   `json:"shape"`
	Ops    []string `json:"ops"`
	Leaves []string `json:"leaves"`
	Toks   []string `json:"toks"`
	Full   []string `json:"full"`
	V      c04Val   `json:"v"`
	Log    []string `json:"log"`
}

type c04St struct{ Seven int }

var c04Set *jet.Set
var c04Log []string

func c04Init() {
	c04Set = jet.NewSet(jet.NewInMemLoader(), jet.WithSafeWriter(nil))
	c04Set.AddGlobal("iv7", 7).AddGlobal("iv2", 2).AddGlobal("in3", -3).AddGlobal("iv1", 1)
	c04Set.AddGlobal("u7", uint(7)).AddGlobal("u8v", uint8(3)).AddGlobal("f32v", float32(2.5)).AddGlobal("fv025", 0.25).AddGlobal("sv", "t").AddGlobal("bv", true)
	c04Set.AddGlobal("isl", []int{7, 8}).AddGlobal("st", c04St{7})
	c04Set.AddGlobal("idf", func(i int) int { return i })
	// probe: logs its id, returns its second argument unchanged
	c04Set.AddGlobal("pb", func(id string, v bool) bool {
		c04Log = append(c04Log, id)
		return v
	})
	c04Set.AddGlobal("pn", func(id string, v int) int {
		c04Log = append(c04Log, id)
		return v
	})
}

func isWordTok(t string) bool {
	if t == "" {
		return false
	}
	c := t[len(t)-1]
	return c == '_' || c == '"' || c == '.' || (c >= '0' && c <= '9') || (c >= 'a' && c <= 'z') || (c >= 'A' && c <= 'Z')
}

// surface forms of one token list
func c04Forms(toks, full []string) map[string]string {
	spaced := strings.Join(toks, " ")
	var tight strings.Builder
	for i, t := range toks {
		if i > 0 && isWordTok(toks[i-1]) && isWordTok(t[:1]) {
			tight.WriteString(" ")
		}
		tight.WriteString(t)
	}
	kw := make([]string, len(toks))
	for i, t := range toks {
		switch t {
		case "&&":
			kw[i] = "and"
		case "||":
			kw[i] = "or"
		case "!":
			kw[i] = "not"
		default:
			kw[i] = t
		}
	}
	return map[string]string{"spaced": spaced, "tight": tight.String(), "parens": strings.Join(full, " "), "keywords": strings.Join(kw, " ")}
}

func c04Check(v *c04Vec, out string) (bool, string) {
	switch v.V.T {
	case "int":
		if out != strconv.FormatInt(v.V.N, 10) {
			return false, fmt.Sprintf("rendered %q, spec integer %d", out, v.V.N)
		}
	case "float":
		got, err := strconv.ParseFloat(out, 64)
		if err != nil {
			return false, fmt.Sprintf("rendered %q, spec float %d/%d", out, v.V.N, v.V.D)
		}
		want, _ := new(big.Rat).SetFrac64(v.V.N, v.V.D).Float64()
		if math.Abs(got-want) > 1e-9*math.Max(1, math.Abs(want)) {
			return false, fmt.Sprintf("rendered %v, spec float %d/%d = %v", got, v.V.N, v.V.D, want)
		}
	case "str":
		if out != v.V.S {
			return false, fmt.Sprintf("rendered %q, spec string %q", out, v.V.S)
		}
	case "bool":
		if out != map[int64]string{0: "false", 1: "true"}[v.V.N] {
			return false, fmt.Sprintf("rendered %q, spec bool %d", out, v.V.N)
		}
	}
	return true, ""
}

func c04Replay(i int, raw json.RawMessage) Result {
	var v c04Vec
	if err := json.Unmarshal(raw, &v); err != nil {
		return Result{Detail: "bad vector: " + err.Error()}
	}
	if c04Set == nil {
		c04Init()
	}
	key := ""
	if len(v.Ops) > 0 || v.Shape != "U" {
		key = v.Shape + "|" + strings.Join(v.Ops, ",") + "|" + strings.Join(v.Leaves, ",")
	}
	forms := c04Forms(v.Toks, v.Full)
	fnames := []string{"spaced", "tight", "parens", "keywords"}
	if v.Shape == "NOTB" && len(v.Ops) == 1 && v.Ops[0] != "&&" && v.Ops[0] != "||" && len(v.Toks) > 3 && v.Toks[0] == "!" && v.Toks[1] == "(" && v.Toks[len(v.Toks)-1] == ")" {
		// "not" takes the whole comparison / arithmetic expression that follows it: the parentheses are optional
		forms["notbare"] = "! " + strings.Join(v.Toks[2:len(v.Toks)-1], " ")
		fnames = append(fnames, "notbare")
	}
	if i == 0 && os.Getenv("VERIF_TRACE") == "" {
		if r := c04HeldValues(); r != nil {
			return *r
		}
	}
	if i == 0 {
		// the right operand of a string concatenation is rendered like the value itself would be
		if t, err := c04Set.Parse("/d.jet", `{{ "took " + dur }}|{{ dur }}|{{ "level=" + lvl }}|{{ lvl }}`); err == nil {
			var b bytes.Buffer
			vars := jet.VarMap{}
			vars.Set("dur", 1500*time.Millisecond).Set("lvl", c04Level(1))
			if err := safeExecute(t, &b, vars, nil); err != nil || b.String() != "took 1.5s|1.5s|level=warn|warn" {
				return Result{Sig: map[string]interface{}{"form": "concat-stringer", "shape": "B1", "ops": "+", "kind": "value"}, Key: "probe",
					Observed: b.String(), Expected: "took 1.5s|1.5s|level=warn|warn",
					Detail: fmt.Sprintf("string + a value with a String method rendered %q (err %v), want %q", b.String(), err, "took 1.5s|1.5s|level=warn|warn")}
			}
		}
	}
	for _, fname := range fnames {
		src := "{{ " + forms[fname] + " }}"
		sig := map[string]interface{}{"form": fname, "shape": v.Shape, "ops": strings.Join(v.Ops, " ")}
		t, err := c04Set.Parse("/e.jet", src)
		if err != nil {
			sig["kind"] = "parse"
			return Result{Sig: sig, Key: key, Observed: err.Error(), Detail: fmt.Sprintf("%s does not parse: %v", src, err)}
		}
		c04Log = nil
		var b bytes.Buffer
		err = safeExecute(t, &b, nil, struct{ Seven int }{7})
		if err != nil {
			sig["kind"] = "error"
			return Result{Sig: sig, Key: key, Observed: err.Error(), Detail: fmt.Sprintf("%s failed: %v (spec value %+v)", src, err, v.V)}
		}
		if ok, why := c04Check(&v, b.String()); !ok {
			sig["kind"] = "value"
			return Result{Sig: sig, Key: key, Observed: b.String(), Expected: v.V, Detail: src + ": " + why}
		}
		if strings.Join(c04Log, ",") != strings.Join(v.Log, ",") {
			sig["kind"] = "evalorder"
			return Result{Sig: sig, Key: key, Observed: c04Log, Expected: v.Log,
				Detail: fmt.Sprintf("%s: operands evaluated %v, spec %v", src, c04Log, v.Log)}
		}
	}
	// the operands held in variables and the result assigned back to one of them, executed twice: the value is the
	// same both times (what a literal stands for does not depend on earlier executions of the template)
	if v.Shape == "B1" && len(v.Log) == 0 && len(v.Ops) == 1 {
		if cut := indexOfTok(v.Toks, v.Ops[0]); cut > 0 {
			l, r := strings.Join(v.Toks[:cut], " "), strings.Join(v.Toks[cut+1:], " ")
			src := "{{ x := " + l + " }}{{ y := " + r + " }}{{ x = x " + v.Ops[0] + " y }}{{ x }}"
			sig := map[string]interface{}{"form": "assigned-twice", "shape": v.Shape, "ops": strings.Join(v.Ops, " "), "kind": "value"}
			if t, err := c04Set.Parse("/a.jet", src); err == nil {
				for round := 1; round <= 2; round++ {
					var b bytes.Buffer
					if err := safeExecute(t, &b, nil, struct{ Seven int }{7}); err != nil {
						sig["kind"] = "error"
						return Result{Sig: sig, Key: key, Observed: err.Error(), Detail: fmt.Sprintf("%s failed in execution %d: %v (spec value %+v)", src, round, err, v.V)}
					}
					if ok, why := c04Check(&v, b.String()); !ok {
						return Result{Sig: sig, Key: key, Observed: b.String(), Expected: v.V, Detail: fmt.Sprintf("%s, execution %d: %s", src, round, why)}
					}
				}
			}
		}
	}
	return Result{OK: true, Key: key}
}

// c05DataProbes: ranging over '.' when the data given to Execute is a typed nil (no elements: the else branch), and over
// the result of a function that returns a slice in one execution and a map in the next
func c05DataProbes() *Result {
	t, err := c04Set.Parse("/r.jet", `{{ range . }}x{{ else }}empty{{ end }}`)
	if err != nil {
		return nil
	}
	for name, data := range map[string]interface{}{"nil slice": []string(nil), "nil map": map[string]int(nil), "empty slice": []int{}} {
		var b bytes.Buffer
		if err := safeExecute(t, &b, nil, data); err != nil || b.String() != "empty" {
			return &Result{Sig: map[string]interface{}{"kind": "cond", "form": "range-data", "in": name, "shape": "", "ops": ""}, Key: "probe", Observed: b.String(), Expected: "empty",
				Detail: fmt.Sprintf("{{ range . }}x{{ else }}empty{{ end }} with a %s as data rendered %q (err %v), want empty", name, b.String(), err)}
		}
	}
	t2, err := c04Set.Parse("/r2.jet", `{{ range k, v := anycoll() }}[{{ v }}]{{ else }}empty{{ end }}`)
	if err != nil {
		return nil
	}
	for round, e := range []struct {
		coll interface{}
		want string
	}{{[]string{"a", "b"}, "[a][b]"}, {map[string]string{"k": "m"}, "[m]"}, {[]string{}, "empty"}, {map[string]string{}, "empty"}, {[]string{"c"}, "[c]"}} {
		vars := jet.VarMap{}
		coll := e.coll
		vars.Set("anycoll", func() interface{} { return coll })
		var b bytes.Buffer
		if err := safeExecute(t2, &b, vars, nil); err != nil || b.String() != e.want {
			return &Result{Sig: map[string]interface{}{"kind": "cond", "form": "range-any", "in": fmt.Sprint(round), "shape": "", "ops": ""}, Key: "probe", Observed: b.String(), Expected: e.want,
				Detail: fmt.Sprintf("execution %d: range over the %T returned by a func() interface{} rendered %q (err %v), want %q", round, e.coll, b.String(), err, e.want)}
		}
	}
	return nil
}

type c04Level int

func (l c04Level) String() string { return []string{"info", "warn", "error"}[l] }

func indexOfTok(toks []string, op string) int {
	for i, t := range toks {
		if t == op {
			return i
		}
	}
	return -1
}

// c05CondReplay (C05): the expression as the condition of an if and of an else-if; exactly one branch renders, the one
// the specification's value of the expression selects (anything but false, 0, "" is truthy), and only the operands
// the specification evaluates are evaluated
func c05CondReplay(i int, raw json.RawMessage) Result {
	var v c04Vec
	if err := json.Unmarshal(raw, &v); err != nil {
		return Result{Detail: "bad vector: " + err.Error()}
	}
	if c04Set == nil {
		c04Init()
	}
	key := v.Shape + "|" + strings.Join(v.Ops, ",") + "|" + strings.Join(v.Leaves, ",")
	if i == 0 {
		if r := c05DataProbes(); r != nil {
			return *r
		}
		if os.Getenv("VERIF_TRACE") == "" {
			if r := c05RangeAfterEarlyExit(); r != nil {
				return *r
			}
		}
	}
	truthy := true
	switch v.V.T {
	case "int", "float", "bool":
		truthy = v.V.N != 0
	case "str":
		truthy = v.V.S != ""
	}
	forms := c04Forms(v.Toks, v.Full)
	for _, fname := range []string{"spaced", "keywords"} {
		for _, shape := range []string{"if", "elseif"} {
			src := "[{{ if " + forms[fname] + " }}T{{ else }}F{{ end }}]"
			if shape == "elseif" {
				src = "[{{ if false }}X{{ else if " + forms[fname] + " }}T{{ else if true }}F{{ else }}Y{{ end }}]"
			}
			want := map[bool]string{true: "[T]", false: "[F]"}[truthy]
			sig := map[string]interface{}{"kind": "cond", "form": fname, "in": shape, "shape": v.Shape, "ops": strings.Join(v.Ops, " ")}
			t, err := c04Set.Parse("/c.jet", src)
			if err != nil {
				sig["kind"] = "cond-parse"
				return Result{Sig: sig, Key: key, Observed: err.Error(), Detail: fmt.Sprintf("%s does not parse: %v", src, err)}
			}
			c04Log = nil
			var b bytes.Buffer
			err = safeExecute(t, &b, nil, struct{ Seven int }{7})
			if err != nil || b.String() != want {
				return Result{Sig: sig, Key: key, Observed: b.String(), Expected: want,
					Detail: fmt.Sprintf("%s rendered %q (err %v); the condition's value is %+v, so %s", src, b.String(), err, v.V, want)}
			}
			if strings.Join(c04Log, ",") != strings.Join(v.Log, ",") {
				sig["kind"] = "cond-evalorder"
				return Result{Sig: sig, Key: key, Observed: c04Log, Expected: v.Log,
					Detail: fmt.Sprintf("%s: operands evaluated %v, spec %v", src, c04Log, v.Log)}
			}
		}
	}
	return Result{OK: true, Key: key}
}

func init() {
	commands["replay-C05cond"] = func(a []string) int { return replayLoop(a[0], a[1], c05CondReplay) }
	commands["replay-C04"] = func(a []string) int { return replayLoop(a[0], a[1], c04Replay) }
}

// c04HeldValues: history probe. The value an operator expression yielded stays that value while the same expression
// (the same node of the tree) is evaluated again: bound to a variable across a recursive yield of the block that holds
// it, and kept by a jet.Func across the iterations of a range. The expected text is what the expression renders to when
// it is evaluated once, on its own, for each operand (that single evaluation is what the vectors judge).
func c04HeldValues() *Result {
	exprs := []string{"-v", "+v", "- v", "-(v+1)", "-(-v)", "4 - -v", "-v*2", "v+1", "1+v", "v-1", "v*3", "v/2", "3%(v+1)", "v<2", "v<=1", "v==1", "v!=1", "!(v<2)", "v<2&&v>0", "v<1||v>1", `"s"+v`, "-w", "-w+v", "- 2 * v + 1"}
	type operand struct{ v, w interface{} }
	kinds := map[string][]operand{
		"float": {{1.5, 2.5}, {2.5, -1.0}, {0.0, 7.25}},
		"int":   {{1, 2}, {2, -1}, {0, 7}},
		"uint":  {{uint(1), uint8(2)}, {uint(2), uint8(1)}, {uint(0), uint8(7)}},
		"mixed": {{1, 2.5}, {2.5, 3}, {int8(0), float32(0.5)}},
	}
	for _, kname := range []string{"float", "int", "uint", "mixed"} {
		ops := kinds[kname]
		for _, e := range exprs {
			l := jet.NewInMemLoader()
			l.Set("/one.jet", "[{{ "+e+" }}]")
			l.Set("/lib.jet", "{{ block rec(n=0, vs=0, ws=0) }}{{ v := vs[n] }}{{ w := ws[n] }}{{ m := "+e+" }}{{ if n < 2 }}{{ yield rec(n=n+1, vs=vs, ws=ws) }}{{ end }}[{{ m }}]{{ end }}")
			l.Set("/rec.jet", `{{ import "/lib.jet" }}{{ yield rec(n=0, vs=vs, ws=ws) }}`)
			l.Set("/keep.jet", "{{ range n, v := vs }}{{ w := ws[n] }}{{ keep("+e+") }}{{ end }}{{ show() }}")
			set := jet.NewSet(l)
			var kept []reflect.Value
			set.AddGlobalFunc("keep", func(a jet.Arguments) reflect.Value { kept = append(kept, a.Get(0)); return reflect.ValueOf("") })
			set.AddGlobalFunc("show", func(a jet.Arguments) reflect.Value {
				s := ""
				for _, k := range kept {
					s += fmt.Sprintf("[%v]", k.Interface())
				}
				return reflect.ValueOf(s)
			})
			render := func(name string, vars jet.VarMap) (string, error) {
				t, err := set.GetTemplate(name)
				if err != nil {
					return "", err
				}
				var b bytes.Buffer
				err = safeExecute(t, &b, vars, nil)
				return b.String(), err
			}
			singles := []string{}
			ok := true
			vs, ws := []interface{}{}, []interface{}{}
			for _, o := range ops {
				vars := jet.VarMap{}
				vars.Set("v", o.v).Set("w", o.w)
				s, err := render("/one.jet", vars)
				if err != nil {
					ok = false // not defined for these operands (the vectors judge that)
					break
				}
				singles = append(singles, s)
				vs, ws = append(vs, o.v), append(ws, o.w)
			}
			if !ok {
				continue
			}
			for _, name := range []string{"/rec.jet", "/keep.jet"} {
				want := strings.Join(singles, "")
				if name == "/rec.jet" {
					want = singles[2] + singles[1] + singles[0]
				}
				for round := 1; round <= 2; round++ {
					kept = nil
					vars := jet.VarMap{}
					vars.Set("vs", vs).Set("ws", ws)
					got, err := render(name, vars)
					if err != nil || got != want {
						src, _ := l.Open(name)
						text := new(bytes.Buffer)
						text.ReadFrom(src)
						return &Result{Sig: map[string]interface{}{"kind": "held", "form": name[1:4], "shape": kname, "ops": e}, Key: "probe",
							Observed: got, Expected: want,
							Detail: fmt.Sprintf("%s with vs=%v ws=%v (execution %d) rendered %q (err %v); evaluated one at a time the expression yields %q", text.String(), vs, ws, round, got, err, want)}
					}
				}
			}
		}
	}
	return nil
}

type c05Counter struct{ n, i int }

func (c *c05Counter) Range() (reflect.Value, reflect.Value, bool) {
	if c.i >= c.n {
		return reflect.Value{}, reflect.Value{}, true
	}
	c.i++
	return reflect.ValueOf(c.i - 1), reflect.ValueOf(fmt.Sprint("r", c.i-1)), false
}
func (c *c05Counter) ProvidesIndex() bool { return true }

// c05RangeAfterEarlyExit: history probe. A range renders its body once per element of ITS subject (else exactly when it
// has none), whatever ranges ran before on the same Set and however they ended: exhausted, left by {{return}} in the
// first/second iteration, left by a runtime error (caught by try, or failing the execution), left by a panicking function.
func c05RangeAfterEarlyExit() *Result {
	type subj struct {
		kind string
		mk   func(n int) interface{}
	}
	subjects := []subj{
		{"map", func(n int) interface{} {
			m := map[string]string{}
			for i := 0; i < n; i++ {
				m[fmt.Sprint("k", n, i)] = fmt.Sprint("v", n, i)
			}
			return m
		}},
		{"slice", func(n int) interface{} {
			s := []string{}
			for i := 0; i < n; i++ {
				s = append(s, fmt.Sprint("v", n, i))
			}
			return s
		}},
		{"array", func(n int) interface{} {
			switch n {
			case 0:
				return [0]int{}
			case 1:
				return [1]int{11}
			case 2:
				return [2]int{21, 22}
			}
			return [3]int{31, 32, 33}
		}},
		{"int", func(n int) interface{} { return n }},
		{"chan", func(n int) interface{} {
			c := make(chan int, 4)
			for i := 0; i < n; i++ {
				c <- 100*n + i
			}
			close(c)
			return c
		}},
		{"ranger", func(n int) interface{} { return &c05Counter{n: n} }},
		{"string", func(n int) interface{} { return "héllo"[:[]int{0, 1, 3, 4}[n]] }},
	}
	leavers := map[string]string{
		"exhaust": `{{ range k, v := m }}{{ end }}`,
		"return1": `{{ range k, v := m }}{{ return k }}{{ end }}`,
		"return2": `{{ n := 0 }}{{ range k, v := m }}{{ if n == 1 }}{{ return v }}{{ end }}{{ n = n + 1 }}{{ end }}`,
		"error":   `{{ range k, v := m }}{{ v.NoSuchField.X }}{{ end }}`,
		"try":     `{{ try }}{{ range k, v := m }}{{ boom() }}{{ end }}{{ catch }}c{{ end }}`,
		"panic":   `{{ range k, v := m }}{{ boom() }}{{ end }}`,
		"nested":  `{{ range k, v := m }}{{ range k2, v2 := m }}{{ return k2 }}{{ end }}{{ end }}`,
	}
	lnames := []string{"exhaust", "return1", "return2", "error", "try", "panic", "nested"}
	judged := `{{ range k, v := m }}[{{ k }}={{ v }}]{{ else }}EMPTY{{ end }}`
	for _, first := range subjects {
		for _, second := range subjects {
			if first.kind != second.kind && first.kind != "map" && second.kind != "map" {
				continue
			}
			for _, ln := range lnames {
				l := jet.NewInMemLoader()
				l.Set("/first.jet", leavers[ln])
				l.Set("/second.jet", judged)
				set := jet.NewSet(l)
				set.AddGlobal("boom", func() string { panic("boom") })
				run := func(name string, m interface{}) (string, error) {
					t, err := set.GetTemplate(name)
					if err != nil {
						return "", err
					}
					var b bytes.Buffer
					vars := jet.VarMap{}
					vars.Set("m", m)
					err = safeExecute(t, &b, vars, nil)
					return b.String(), err
				}
				for round := 0; round < 6; round++ {
					n := []int{1, 0, 2, 3, 1, 0}[round]
					// what the judged range renders on a Set without that history
					ref := jet.NewSet(l)
					tr, err := ref.GetTemplate("/second.jet")
					if err != nil {
						return nil
					}
					var rb bytes.Buffer
					rv := jet.VarMap{}
					rv.Set("m", second.mk(n))
					if safeExecute(tr, &rb, rv, nil) != nil {
						break
					}
					run("/first.jet", first.mk(3))
					got, err := run("/second.jet", second.mk(n))
					want := rb.String()
					same := got == want
					if second.kind == "map" && err == nil && len(got) == len(want) {
						a, b := strings.Split(got, "]"), strings.Split(want, "]")
						sort.Strings(a)
						sort.Strings(b)
						same = strings.Join(a, "]") == strings.Join(b, "]")
					}
					if n == 0 {
						same = same && got == "EMPTY"
					}
					if err != nil || !same {
						return &Result{Sig: map[string]interface{}{"kind": "range-history", "form": ln, "shape": first.kind + ">" + second.kind, "ops": ""}, Key: "probe",
							Observed: got, Expected: want,
							Detail: fmt.Sprintf("after %s over a %s of 3 (round %d), %s over a %s of %d rendered %q (err %v); without that history it renders %q", leavers[ln], first.kind, round, judged, second.kind, n, got, err, want)}
					}
				}
			}
		}
	}
	return nil
}

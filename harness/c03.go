package main

import (
	"bytes"
	"encoding/json"
	"errors"
	"fmt"
	"io"
	"strings"

	"github.com/CloudyKit/jet/v6"
)

type c03Vec struct {
	Hdr  []string `json:"hdr"`
	Inp  []string `json:"inp"`
	Kind string   `json:"kind"`
	Out  []string `json:"out"`
}

type c03Cfg struct{ LD, RD, LC, RC string }

var c03Cfgs = map[string]c03Cfg{
	"A": {"{{", "}}", "{*", "*}"},
	"B": {"[[", "]]", "{*", "*}"},
	"C": {"[[", "]]", "[*", "*]"},
	"D": {"<%", "%>", "<#", "#>"},
	"E": {"{{", "}}", "<!--", "-->"},
	"F": {"{{", "}}", "<#", "*}"}, // only the left comment marker is configured; the right one keeps its default
}

var c03Vars = func() jet.VarMap {
	v := jet.VarMap{}
	for n := 1; n <= 12; n++ {
		v.Set(strings.Repeat("x", n), fmt.Sprintf("⟨%d⟩", n))
	}
	return v
}()

// c03AfterFailedLoad: the text of a template is what its source says - also when the load before it failed half way
// through reading (whatever had been read then is gone)
type c03FailingReader struct{ n int }

func (r *c03FailingReader) Read(p []byte) (int, error) {
	if r.n == 0 {
		r.n++
		return copy(p, "STALE BYTES OF A FAILED LOAD "), nil
	}
	return 0, errors.New("injected read failure")
}
func (r *c03FailingReader) Close() error { return nil }

// c03EOFReader hands out its last bytes together with io.EOF (as the io.Reader contract allows)
type c03EOFReader struct {
	chunks []string
}

func (r *c03EOFReader) Read(p []byte) (int, error) {
	if len(r.chunks) == 0 {
		return 0, io.EOF
	}
	n := copy(p, r.chunks[0])
	r.chunks = r.chunks[1:]
	if len(r.chunks) == 0 {
		return n, io.EOF
	}
	return n, nil
}
func (r *c03EOFReader) Close() error { return nil }

type c03Loader struct{ *jet.InMemLoader }

func (l c03Loader) Exists(p string) bool {
	return p == "/bad.jet" || p == "/eof.jet" || l.InMemLoader.Exists(p)
}
func (l c03Loader) Open(p string) (io.ReadCloser, error) {
	if p == "/bad.jet" {
		return &c03FailingReader{}, nil
	}
	if p == "/eof.jet" {
		return &c03EOFReader{chunks: []string{"first part, ", "middle, ", "the tail that comes with EOF"}}, nil
	}
	return l.InMemLoader.Open(p)
}

func c03AfterFailedLoad() *Result {
	mem := jet.NewInMemLoader()
	mem.Set("/good.jet", "plain text, copied verbatim")
	for round := 0; round < 4; round++ {
		set := jet.NewSet(c03Loader{mem}, jet.WithSafeWriter(nil))
		if _, err := set.GetTemplate("/bad.jet"); err == nil {
			return nil
		}
		t, err := set.GetTemplate("/good.jet")
		var b bytes.Buffer
		if err == nil {
			err = safeExecute(t, &b, nil, nil)
		}
		if te, err2 := set.GetTemplate("/eof.jet"); err2 == nil {
			var eb bytes.Buffer
			want := "first part, middle, the tail that comes with EOF"
			if err3 := safeExecute(te, &eb, nil, nil); err3 != nil || eb.String() != want {
				return &Result{Sig: map[string]interface{}{"kind": "output", "cfg": "A", "header": "", "action": false, "comment": false, "ltrim": false, "rtrim": false, "expect": "ok", "history": "reader-eof-with-data"}, Key: "history",
					Observed: eb.String(), Expected: want,
					Detail: fmt.Sprintf("a template read from a reader that returns its last bytes together with io.EOF rendered %q (err %v), its source is %q", eb.String(), err3, want)}
			}
		}
		if err != nil || b.String() != "plain text, copied verbatim" {
			return &Result{Sig: map[string]interface{}{"kind": "output", "cfg": "A", "header": "", "action": false, "comment": false, "ltrim": false, "rtrim": false, "expect": "ok", "history": "after-failed-load"}, Key: "history",
				Observed: b.String(), Expected: "plain text, copied verbatim",
				Detail: fmt.Sprintf("after a load that failed while reading, /good.jet rendered %q (err %v); its source is %q", b.String(), err, "plain text, copied verbatim")}
		}
	}
	return nil
}

func c03Replay(cfgName string) func(i int, raw json.RawMessage) Result {
	cfg := c03Cfgs[cfgName]
	opts := []jet.Option{jet.WithSafeWriter(nil)}
	if cfgName != "A" {
		opts = append(opts, jet.WithDelims(cfg.LD, cfg.RD))
		if cfgName != "B" {
			if cfgName == "F" {
				opts = append(opts, jet.WithCommentDelims(cfg.LC, ""))
			} else {
				opts = append(opts, jet.WithCommentDelims(cfg.LC, cfg.RC))
			}
		}
	}
	loader := jet.NewInMemLoader()
	loader.Set("/imp.jet", "IMPORTED TEXT "+cfg.LD+"block ib()"+cfg.RD+"ib"+cfg.LD+"end"+cfg.RD)
	set := jet.NewSet(loader, opts...)
	// the same configuration with the options given in the opposite order: options are independent of each other
	rev := make([]jet.Option, len(opts))
	for k := range opts {
		rev[len(opts)-1-k] = opts[k]
	}
	setRev := jet.NewSet(loader, rev...)
	return func(i int, raw json.RawMessage) Result {
		var v c03Vec
		if err := json.Unmarshal(raw, &v); err != nil {
			return Result{Detail: "bad vector: " + err.Error()}
		}
		if i == 0 && cfgName == "A" {
			if r := c03AfterFailedLoad(); r != nil {
				return *r
			}
		}
		src := strings.Join(v.Inp, "")
		for k := len(v.Hdr) - 1; k >= 0; k-- {
			if v.Hdr[k] == "ws" {
				src = " \n" + src
			} else {
				src = cfg.LD + `import "imp"` + cfg.RD + src
			}
		}
		var want strings.Builder
		for _, c := range v.Out {
			if strings.HasPrefix(c, "@") {
				want.WriteString(fmt.Sprintf("⟨%d⟩", atoi(c[1:])))
			} else {
				want.WriteString(c)
			}
		}
		key := ""
		hasAction := strings.Contains(src, cfg.LD)
		hasComment := strings.Contains(src, cfg.LC)
		if hasAction || hasComment {
			key = cfgName + ":" + src
		}
		sig := map[string]interface{}{"cfg": cfgName, "header": strings.Join(v.Hdr, "+"), "expect": v.Kind, "action": hasAction, "comment": hasComment,
			"ltrim": strings.Contains(src, cfg.LD+"- "), "rtrim": strings.Contains(src, " -"+cfg.RD)}
		var t *jet.Template
		var err error
		var panicked interface{}
		func() {
			defer func() { panicked = recover() }()
			if i%3 == 1 {
				t, err = setRev.Parse("/t.jet", src) // every third vector through the Set whose options came in the other order
			} else {
				t, err = set.Parse("/t.jet", src)
			}
		}()
		if panicked != nil {
			sig["kind"] = "panic"
			return Result{Sig: sig, Key: key, Detail: fmt.Sprintf("Parse(%q) panicked: %v", src, panicked)}
		}
		if v.Kind == "error" {
			if err == nil {
				sig["kind"] = "accepted"
				return Result{Sig: sig, Key: key, Detail: fmt.Sprintf("%q has an unclosed comment but was accepted", src)}
			}
			return Result{OK: true, Key: key}
		}
		if err != nil {
			sig["kind"] = "rejected"
			return Result{Sig: sig, Key: key, Observed: err.Error(), Expected: want.String(),
				Detail: fmt.Sprintf("%q is well formed (renders %q) but Parse failed: %v", src, want.String(), err)}
		}
		var b bytes.Buffer
		if e := safeExecute(t, &b, c03Vars, nil); e != nil {
			sig["kind"] = "execerror"
			return Result{Sig: sig, Key: key, Observed: e.Error(), Detail: fmt.Sprintf("%q: %v", src, e)}
		}
		if b.String() != want.String() {
			sig["kind"] = "output"
			return Result{Sig: sig, Key: key, Observed: b.String(), Expected: want.String(),
				Detail: fmt.Sprintf("%q rendered %q, contract %q", src, b.String(), want.String())}
		}
		return Result{OK: true, Key: key}
	}
}

func init() {
	commands["replay-C03"] = func(a []string) int { return replayLoop(a[0], a[1], c03Replay(a[2])) }
}

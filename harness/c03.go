package main

import (
	"bytes"
	"encoding/json"
	"fmt"
	"strings"

	"github.com/CloudyKit/jet/v6"
)

type c03Vec struct {
	Hdr  []string `json:"hdr"`
	Inp  []string `json:"inp"`
	Kind string   `json:"kind"`
	Out  []string `json:"out"`
}

type c03Cfg struct{ LD, RD, LC, RC string }

var c03Cfgs = map[string]c03Cfg{
	"A": {"{{", "}}", "{*", "*}"},
	"B": {"[[", "]]", "{*", "*}"},
	"C": {"[[", "]]", "[*", "*]"},
	"D": {"<%", "%>", "<#", "#>"},
	"E": {"{{", "}}", "<!--", "-->"},
	"F": {"{{", "}}", "<#", "*}"}, // only the left comment marker is configured; the right one keeps its default
}

var c03Vars = func() jet.VarMap {
	v := jet.VarMap{}
	for n := 1; n <= 12; n++ {
		v.Set(strings.Repeat("x", n), fmt.Sprintf("⟨%d⟩", n))
	}
	return v
}()

func c03Replay(cfgName string) func(i int, raw json.RawMessage) Result {
	cfg := c03Cfgs[cfgName]
	opts := []jet.Option{jet.WithSafeWriter(nil)}
	if cfgName != "A" {
		opts = append(opts, jet.WithDelims(cfg.LD, cfg.RD))
		if cfgName != "B" {
			if cfgName == "F" {
				opts = append(opts, jet.WithCommentDelims(cfg.LC, ""))
			} else {
				opts = append(opts, jet.WithCommentDelims(cfg.LC, cfg.RC))
			}
		}
	}
	loader := jet.NewInMemLoader()
	loader.Set("/imp.jet", "IMPORTED TEXT "+cfg.LD+"block ib()"+cfg.RD+"ib"+cfg.LD+"end"+cfg.RD)
	set := jet.NewSet(loader, opts...)
	return func(i int, raw json.RawMessage) Result {
		var v c03Vec
		if err := json.Unmarshal(raw, &v); err != nil {
			return Result{Detail: "bad vector: " + err.Error()}
		}
		src := strings.Join(v.Inp, "")
		for k := len(v.Hdr) - 1; k >= 0; k-- {
			if v.Hdr[k] == "ws" {
				src = " \n" + src
			} else {
				src = cfg.LD + `import "imp"` + cfg.RD + src
			}
		}
		var want strings.Builder
		for _, c := range v.Out {
			if strings.HasPrefix(c, "@") {
				want.WriteString(fmt.Sprintf("⟨%d⟩", atoi(c[1:])))
			} else {
				want.WriteString(c)
			}
		}
		key := ""
		hasAction := strings.Contains(src, cfg.LD)
		hasComment := strings.Contains(src, cfg.LC)
		if hasAction || hasComment {
			key = cfgName + ":" + src
		}
		sig := map[string]interface{}{"cfg": cfgName, "header": strings.Join(v.Hdr, "+"), "expect": v.Kind, "action": hasAction, "comment": hasComment,
			"ltrim": strings.Contains(src, cfg.LD+"- "), "rtrim": strings.Contains(src, " -"+cfg.RD)}
		var t *jet.Template
		var err error
		var panicked interface{}
		func() {
			defer func() { panicked = recover() }()
			t, err = set.Parse("/t.jet", src)
		}()
		if panicked != nil {
			sig["kind"] = "panic"
			return Result{Sig: sig, Key: key, Detail: fmt.Sprintf("Parse(%q) panicked: %v", src, panicked)}
		}
		if v.Kind == "error" {
			if err == nil {
				sig["kind"] = "accepted"
				return Result{Sig: sig, Key: key, Detail: fmt.Sprintf("%q has an unclosed comment but was accepted", src)}
			}
			return Result{OK: true, Key: key}
		}
		if err != nil {
			sig["kind"] = "rejected"
			return Result{Sig: sig, Key: key, Observed: err.Error(), Expected: want.String(),
				Detail: fmt.Sprintf("%q is well formed (renders %q) but Parse failed: %v", src, want.String(), err)}
		}
		var b bytes.Buffer
		if e := safeExecute(t, &b, c03Vars, nil); e != nil {
			sig["kind"] = "execerror"
			return Result{Sig: sig, Key: key, Observed: e.Error(), Detail: fmt.Sprintf("%q: %v", src, e)}
		}
		if b.String() != want.String() {
			sig["kind"] = "output"
			return Result{Sig: sig, Key: key, Observed: b.String(), Expected: want.String(),
				Detail: fmt.Sprintf("%q rendered %q, contract %q", src, b.String(), want.String())}
		}
		return Result{OK: true, Key: key}
	}
}

func init() {
	commands["replay-C03"] = func(a []string) int { return replayLoop(a[0], a[1], c03Replay(a[2])) }
}

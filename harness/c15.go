package main

import (
	"encoding/json"
	"fmt"
	"io"
	"os"
	"path"
	"path/filepath"
	"strconv"
	"strings"
	"sync"

	"github.com/CloudyKit/jet/v6"
)

// recLoader / recCache record every path the Set hands to its Loader and Cache.
type callRec struct {
	Op   string `json:"op"`
	Path string `json:"path"`
}

type recorder struct {
	mu    sync.Mutex
	calls []callRec
}

func (r *recorder) add(op, p string) {
	r.mu.Lock()
	r.calls = append(r.calls, callRec{op, p})
	r.mu.Unlock()
}

type recLoader struct {
	inner jet.Loader
	rec   *recorder
}

func (l *recLoader) Exists(p string) bool { l.rec.add("Exists", p); return l.inner.Exists(p) }
func (l *recLoader) Open(p string) (io.ReadCloser, error) {
	l.rec.add("Open", p)
	return l.inner.Open(p)
}

type recCache struct {
	m   map[string]*jet.Template
	rec *recorder
	mu  sync.Mutex
}

func (c *recCache) Get(p string) *jet.Template {
	c.rec.add("Get", p)
	c.mu.Lock()
	defer c.mu.Unlock()
	return c.m[p]
}
func (c *recCache) Put(p string, t *jet.Template) {
	c.rec.add("Put", p)
	c.mu.Lock()
	c.m[p] = t
	c.mu.Unlock()
}

type c15Vec struct {
	Segs  []string `json:"segs"`
	Abs   bool     `json:"abs"`
	Exts  []string `json:"exts"`
	Hit   int      `json:"hit"`
	Dev   bool     `json:"dev"`
	Entry string   `json:"entry"`
	Depth int      `json:"depth"`
	Canon []string `json:"canon"`
	Calls []struct {
		Op   string   `json:"op"`
		Path []string `json:"path"`
		Ext  string   `json:"ext"`
	} `json:"calls"`
}

func spell(abs bool, segs []string) string {
	s := strings.Join(segs, "/")
	if abs {
		s = "/" + s
	}
	return s
}

func refDir(d int) string {
	switch d {
	case 0:
		return "/"
	case 1:
		return "/a/"
	}
	return "/a/b/"
}

func c15Replay(i int, raw json.RawMessage) Result {
	var v c15Vec
	if err := json.Unmarshal(raw, &v); err != nil {
		return Result{Detail: "bad vector: " + err.Error()}
	}
	obs, herr := c15Run(&v)
	if herr != "" {
		return Result{Detail: herr}
	}
	name := spell(v.Abs, v.Segs)
	canon := "/" + strings.Join(v.Canon, "/")
	var exp []callRec
	for _, c := range v.Calls {
		exp = append(exp, callRec{c.Op, "/" + strings.Join(c.Path, "/") + c.Ext})
	}
	sig := c15Sig(&v)
	key := ""
	if sig["dotdot"].(bool) || sig["dot"].(bool) || sig["empty"].(bool) {
		key = v.Entry + "|" + name
	}
	if !jsonEq(obs, exp) {
		return Result{OK: false, Sig: sig, Observed: obs, Expected: exp, Key: key,
			Detail: "paths handed to Loader/Cache differ from Canon(" + name + ") = " + canon}
	}
	if v.Entry == "ParseExtends" && i%20 == 0 {
		// a template parsed under an empty or relative name: whatever it refers to, the Loader and the Cache still
		// only see clean absolute paths
		for _, pname := range []string{"", ".", "x", "a/../y"} {
			rec := &recorder{}
			mem := jet.NewInMemLoader()
			set := jet.NewSet(&recLoader{mem, rec}, jet.WithCache(&recCache{m: map[string]*jet.Template{}, rec: rec}), jet.WithTemplateNameExtensions(v.Exts))
			set.Parse(pname, "{{extends "+strconv.Quote(name)+"}}")
			for _, c := range rec.calls {
				if !strings.HasPrefix(c.Path, "/") || path.Clean(c.Path) != c.Path && c.Path != "/" {
					return Result{OK: false, Sig: sig, Observed: rec.calls, Expected: "clean absolute paths", Key: key,
						Detail: fmt.Sprintf("Set.Parse(%q, extends %q) handed %s(%q) to the loader/cache", pname, name, c.Op, c.Path)}
				}
			}
		}
	}
	if v.Entry == "includeData" && !v.Dev && v.Depth == 0 {
		if d := c15Confined(&v); d != "" {
			return Result{OK: false, Sig: sig, Observed: d, Expected: "nothing from outside the loader's directory", Key: key, Detail: d}
		}
	}
	return Result{OK: true, Key: key}
}

func c15Sig(v *c15Vec) map[string]interface{} {
	has := func(s string) bool {
		for _, x := range v.Segs {
			if x == s {
				return true
			}
		}
		return false
	}
	return map[string]interface{}{"entry": v.Entry, "abs": v.Abs, "dotdot": has(".."), "dot": has("."),
		"empty": has(""), "hit": v.Hit > 0, "dev": v.Dev}
}

var c15OSRoot string

// c15Confined steers a Set over an OSFileSystemLoader with names that spell the loader's own directory, a sibling
// directory sharing its prefix, and the vector's spelling behind them: whatever is rendered comes from a file
// below the loader's directory.
func c15Confined(v *c15Vec) string {
	if c15OSRoot == "" {
		root, err := os.MkdirTemp("", "c15os-")
		if err != nil {
			return ""
		}
		for _, d := range []string{"views", "views-private", "views.bak", "viewsx"} {
			for _, p := range []string{"a", "b", "a/a", "a/b", "b/a", "b/b"} {
				f := filepath.Join(root, d, p+".jet")
				os.MkdirAll(filepath.Dir(f), 0o755)
				tag := "OUT"
				if d == "views" {
					tag = "IN"
				}
				os.WriteFile(f, []byte(tag+"["+d+"/"+p+"]"), 0o644)
			}
		}
		os.WriteFile(filepath.Join(root, "views", "zref.jet"), []byte("{{include .}}"), 0o644)
		c15OSRoot = root
	}
	dir := filepath.Join(c15OSRoot, "views")
	set := jet.NewSet(jet.NewOSFileSystemLoader(dir), jet.WithTemplateNameExtensions([]string{"", ".jet"}))
	t, err := set.GetTemplate("/zref")
	if err != nil {
		return ""
	}
	sp := spell(false, v.Segs)
	for _, name := range []string{dir + "-private/" + sp, dir + ".bak/" + sp, dir + "x/" + sp, dir + "/../views-private/" + sp,
		"/../views-private/" + sp, "../views-private/" + sp,
		`..\views-private\` + sp, `x\..\..\views-private\` + sp, dir + `\..\views-private\` + sp, `\..\views-private\a`, sp + "/../../views-private/a", dir + "/../../" + sp} {
		var b strings.Builder
		func() {
			defer func() { recover() }()
			t.Execute(&b, nil, name)
		}()
		if strings.Contains(b.String(), "OUT[") {
			return fmt.Sprintf("OSFileSystemLoader(%q): {{include .}} with the name %q rendered %q, a file outside the directory", dir, name, b.String())
		}
	}
	return ""
}

// c15Run issues the spelling through the entry point on a real Set with recording
// Loader and Cache and returns the calls that concern the target template.
// The target file (if any) is stored where the *vector* says the canonical path is.
func c15Run(v *c15Vec) (obs []callRec, herr string) {
	rec := &recorder{}
	badName := ""
	mem := jet.NewInMemLoader()
	name := spell(v.Abs, v.Segs)
	canon := "/" + strings.Join(v.Canon, "/")
	if v.Hit > 0 {
		mem.Set(canon+v.Exts[v.Hit-1], "T")
	}
	set := jet.NewSet(&recLoader{mem, rec}, jet.WithCache(&recCache{m: map[string]*jet.Template{}, rec: rec}),
		jet.WithTemplateNameExtensions(v.Exts), jet.DevelopmentMode(v.Dev))
	ref := refDir(v.Depth) + "zref"
	q := strconv.Quote(name)
	var data interface{}
	// history: the same spelling is first used by a referrer in another directory of the same Set (a name is
	// resolved against the directory of the template that uses it, every time); skipped when both resolve to
	// the same file, because the first use would then legitimately fill the cache
	relEntry := v.Entry != "exec" && v.Entry != "includeIfExists" // those two resolve against the root, wherever they are used
	prior := func(pre, spelling string) {
		pq := strconv.Quote(spelling)
		var psrc string
		switch v.Entry {
		case "extends", "ParseExtends":
			psrc = "{{extends " + pq + "}}"
		case "import":
			psrc = "{{import " + pq + "}}"
		case "include", "GetTemplate":
			psrc = "{{include " + pq + "}}"
		case "includeData":
			psrc = "{{include .}}"
		}
		mem.Set(pre+v.Exts[0], psrc)
		if t, err := set.GetTemplate(pre); err == nil {
			func() {
				defer func() { recover() }()
				t.Execute(io.Discard, nil, spelling)
			}()
		}
		rec.mu.Lock()
		rec.calls = nil
		rec.mu.Unlock()
	}
	if relEntry && !strings.HasPrefix(name, "/") && path.Join("/pq/rs", name) != canon {
		prior("/pq/rs/zpre", name)
	}
	// history: the same spelling was first resolved from the ROOT directory (by a root-level referrer)
	if relEntry && !strings.HasPrefix(name, "/") && v.Depth > 0 && path.Join("/", name) != canon {
		prior("/zroot", name)
	}
	// history: another (directory, name) pair whose plain concatenation reads the same as this one's
	// ("/a" + "b/x" and "/" + "ab/x"): every pair is resolved on its own
	if relEntry && !strings.HasPrefix(name, "/") && v.Depth > 0 && v.Entry != "GetTemplate" {
		twinRef, twinName := "/zpre2", "a"+name
		if v.Depth == 2 {
			twinRef, twinName = "/a/zpre2", "b"+name
		}
		if path.Join(path.Dir(twinRef), twinName) != canon {
			prior(twinRef, twinName)
		}
	}
	switch v.Entry {
	case "GetTemplate":
		set.GetTemplate(name)
	case "extends":
		mem.Set(ref+v.Exts[0], "{{extends "+q+"}}")
		set.GetTemplate(ref)
	case "import":
		mem.Set(ref+v.Exts[0], "{{import "+q+"}}")
		set.GetTemplate(ref)
	case "ParseExtends":
		// an unclean spelling of the referrer's own name: Parse must clean it
		// (it also climbs above the root: no spelling resolves above it)
		t, _ := set.Parse("../x/../"+strings.TrimPrefix(refDir(v.Depth), "/")+"./zref.jet", "{{extends "+q+"}}")
		if t != nil && t.Name != refDir(v.Depth)+"zref.jet" {
			badName = t.Name
		}
	default:
		src := ""
		switch v.Entry {
		case "include":
			src = "{{include " + q + "}}"
		case "includeData":
			src = "{{include .}}"
			data = name
		case "exec":
			src = "{{exec(" + q + ")}}"
		case "includeIfExists":
			src = "{{includeIfExists(" + q + ")}}"
		}
		mem.Set(ref+v.Exts[0], src)
		t, err := set.GetTemplate(ref)
		if err != nil {
			return nil, "harness: referrer did not load: " + err.Error()
		}
		if v.Entry == "includeData" {
			// history on the same template: the include node has already been executed with another name
			mem.Set(refDir(v.Depth)+"zdecoy"+v.Exts[0], "D")
			func() {
				defer func() { recover() }()
				t.Execute(io.Discard, nil, "zdecoy")
			}()
		}
		rec.mu.Lock()
		rec.calls = nil
		rec.mu.Unlock()
		func() {
			defer func() { recover() }()
			t.Execute(io.Discard, nil, data)
		}()
	}
	for _, c := range rec.calls {
		if strings.Contains(c.Path, "zref") || strings.Contains(c.Path, "zpre") || strings.Contains(c.Path, "zdecoy") || strings.Contains(c.Path, "zroot") {
			continue
		}
		obs = append(obs, c)
	}
	if badName != "" {
		obs = append(obs, callRec{"Template.Name", badName})
	}
	return obs, ""
}

func init() {
	commands["replay-C15"] = func(a []string) int {
		defer func() {
			if c15OSRoot != "" {
				os.RemoveAll(c15OSRoot)
			}
		}()
		return replayLoop(a[0], a[1], c15Replay)
	}
}

// record-C15 <out.ndjson> <seed> <n>: random long spellings through every entry point;
// the events are validated by TLC against spec/Trace_Path.tla (code -> spec).
func c15Record(a []string) int {
	out, seed, n := a[0], atoi(a[1]), atoi(a[2])
	rng := newRand(int64(seed))
	f, err := os.Create(out)
	if err != nil {
		return 2
	}
	defer f.Close()
	enc := json.NewEncoder(f)
	entries := []string{"GetTemplate", "extends", "import", "include", "includeData", "exec", "includeIfExists", "ParseExtends"}
	segs := []string{"a", "b", ".", "..", "", "a", "b", "..", `c\..\d`}
	extLists := [][]string{{"", ".jet", ".html.jet", ".jet.html"}, {".jet"}, {".x", ""}, {""}}
	for i := 0; i < n; i++ {
		v := c15Vec{Entry: entries[rng.Intn(len(entries))], Abs: rng.Intn(3) == 0, Dev: rng.Intn(3) == 0, Exts: extLists[rng.Intn(len(extLists))]}
		for k, m := 0, 1+rng.Intn(8); k < m; k++ {
			v.Segs = append(v.Segs, segs[rng.Intn(len(segs))])
		}
		switch v.Entry {
		case "extends", "import", "include", "includeData", "ParseExtends":
			v.Depth = rng.Intn(3)
		}
		v.Hit = rng.Intn(len(v.Exts) + 1)
		// where the file goes is decided by Go's own path.Clean (an independent oracle for
		// file placement only; the expected *calls* come from TLC)
		base := "/"
		if !strings.HasPrefix(spell(v.Abs, v.Segs), "/") {
			switch v.Entry {
			case "extends", "import", "include", "includeData", "ParseExtends":
				base = refDir(v.Depth)
			}
		}
		cl := path.Join(base, spell(false, v.Segs))
		v.Canon = nil
		for _, s := range strings.Split(strings.Trim(cl, "/"), "/") {
			if s != "" {
				v.Canon = append(v.Canon, s)
			}
		}
		obs, herr := c15Run(&v)
		if herr != "" {
			fmt.Fprintln(os.Stderr, herr)
			return 2
		}
		if obs == nil {
			obs = []callRec{}
		}
		enc.Encode(map[string]interface{}{"entry": v.Entry, "abs": v.Abs, "segs": v.Segs, "depth": v.Depth,
			"exts": v.Exts, "hit": v.Hit, "dev": v.Dev, "calls": obs})
	}
	return 0
}

func init() { commands["record-C15"] = c15Record }

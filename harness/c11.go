package main

import (
	"bytes"
	"encoding/json"
	"fmt"
	"io"
	"os"
	"reflect"
	"regexp"
	"strings"
	"sync"
	"time"

	"github.com/CloudyKit/jet/v6"
)

// ---- C11 (a): gate-driven replay of TLC interleavings --------------------------------------
// Exactly one goroutine runs at a time; it yields to the scheduler at every gate (before
// cache.Get, loader.Exists, loader.Open, cache.Put and before each atomic operation).

type c11Op struct {
	K string `json:"k"`
	N string `json:"n"`
	V int    `json:"v"`
}
type c11Vec struct {
	Prog    [][]c11Op       `json:"prog"`
	Sched   [][]interface{} `json:"sched"`
	Results [][]int         `json:"results"`
}

type c11G struct {
	arrive chan string
	grant  chan struct{}
	done   chan struct{}
}

type c11World struct {
	mu      sync.Mutex
	files   map[string]int
	current *c11G
	gated   bool
}

func (w *c11World) gate(name string) {
	if !w.gated {
		return
	}
	g := w.current
	g.arrive <- name
	<-g.grant
}

func c11Content(n string, v int) string { return fmt.Sprintf("%s#%d:g={{ g }}", n, v) }

type c11Loader struct{ w *c11World }

func (l *c11Loader) Exists(p string) bool {
	l.w.gate("lexists")
	l.w.mu.Lock()
	defer l.w.mu.Unlock()
	_, ok := l.w.files[p]
	return ok
}
func (l *c11Loader) Open(p string) (io.ReadCloser, error) {
	l.w.gate("lopen")
	l.w.mu.Lock()
	defer l.w.mu.Unlock()
	v, ok := l.w.files[p]
	if !ok {
		return nil, fmt.Errorf("no such file")
	}
	return io.NopCloser(strings.NewReader(c11Content(strings.TrimPrefix(p, "/"), v))), nil
}

type c11Cache struct {
	w  *c11World
	mu sync.Mutex
	m  map[string]*jet.Template
}

func (c *c11Cache) Get(p string) *jet.Template {
	c.w.gate("cget")
	c.mu.Lock()
	defer c.mu.Unlock()
	return c.m[p]
}
func (c *c11Cache) Put(p string, t *jet.Template) {
	c.w.gate("cput")
	c.mu.Lock()
	c.m[p] = t
	c.mu.Unlock()
}

var c11VerRe = regexp.MustCompile(`#(\d+):g=(\d*)`)

func c11Version(t *jet.Template) int {
	m := c11VerRe.FindStringSubmatch(t.String())
	if m == nil {
		return -1
	}
	return atoi(m[1])
}

// runOp performs one operation of a goroutine's program; handles maps name -> template
func c11RunOp(w *c11World, set *jet.Set, op c11Op, handles map[string]*jet.Template) (res int, err error) {
	defer func() {
		if r := recover(); r != nil {
			err = fmt.Errorf("PANIC: %v", r)
		}
	}()
	switch op.K {
	case "GT":
		t, e := set.GetTemplate(op.N)
		if e != nil {
			return -1, e
		}
		handles[op.N] = t
		return c11Version(t), nil
	case "PA":
		// Set.Parse of a template extending op.N: the lookup goes through the gates, nothing is cached
		t, e := set.Parse("/parsed_"+op.N, `{{extends "`+op.N+`"}}`)
		if e != nil {
			return -1, e
		}
		// the version of the layout it captured shows when it is rendered
		var pb bytes.Buffer
		if e := t.Execute(&pb, nil, nil); e != nil {
			return -1, e
		}
		if m := c11VerRe.FindStringSubmatch(pb.String()); m != nil {
			return atoi(m[1]), nil
		}
		return -1, fmt.Errorf("garbled output %q", pb.String())
	case "EXI":
		w.gate("exec")
		t := handles["inc:"+op.N]
		var b bytes.Buffer
		if e := t.Execute(&b, nil, nil); e != nil {
			return -1, e
		}
		m := c11VerRe.FindStringSubmatch(b.String())
		if m == nil || b.String() != fmt.Sprintf("%s#%s:g=%s", op.N, m[1], m[2]) {
			return -1, fmt.Errorf("garbled output %q", b.String())
		}
		return 10*atoi(m[1]) + atoi(m[2]), nil
	case "EX":
		w.gate("exec")
		t := handles[op.N]
		if t == nil {
			return -1, fmt.Errorf("no handle")
		}
		var b bytes.Buffer
		if e := t.Execute(&b, nil, nil); e != nil {
			return -1, e
		}
		m := c11VerRe.FindStringSubmatch(b.String())
		if m == nil || b.String() != fmt.Sprintf("%s#%s:g=%s", op.N, m[1], m[2]) {
			return -1, fmt.Errorf("garbled output %q", b.String())
		}
		return 10*atoi(m[1]) + atoi(m[2]), nil
	case "AG":
		w.gate("addglobal")
		set.AddGlobal("g", op.V)
		return 0, nil
	case "LG":
		w.gate("lookup")
		v, _ := set.LookupGlobal("g")
		if rv, ok := v.(reflect.Value); ok {
			return int(rv.Int()), nil
		}
		return -1, fmt.Errorf("LookupGlobal returned %T", v)
	case "LS":
		w.gate("lset")
		w.mu.Lock()
		w.files["/"+op.N] = op.V
		w.mu.Unlock()
		return 0, nil
	}
	return -1, fmt.Errorf("unknown op")
}

// templates whose body is {{include "n"}}, parsed without touching loader or cache
func c11Includers(set *jet.Set) map[string]*jet.Template {
	h := map[string]*jet.Template{}
	for _, n := range []string{"a", "b"} {
		t, err := set.Parse("/includer_"+n, `{{include "`+n+`"}}`)
		if err != nil {
			panic(err)
		}
		h["inc:"+n] = t
	}
	return h
}

func c11NewWorld(gated bool) (*c11World, *jet.Set) {
	w := &c11World{files: map[string]int{"/a": 1, "/b": 1}, gated: gated}
	set := jet.NewSet(&c11Loader{w}, jet.WithCache(&c11Cache{w: w, m: map[string]*jet.Template{}}),
		jet.WithTemplateNameExtensions([]string{""}), jet.WithSafeWriter(nil))
	set.AddGlobal("g", 0)
	return w, set
}

// generous so that a loaded machine cannot cause a "stuck" verdict; after a few real ones the replay stops judging
const c11StuckAfter = 20 * time.Second

var c11Stuck = 0

func c11Replay(i int, raw json.RawMessage) Result {
	if c11Stuck >= 4 {
		return Result{OK: true}
	}
	var v c11Vec
	if err := json.Unmarshal(raw, &v); err != nil {
		return Result{Detail: "bad vector: " + err.Error()}
	}
	w, set := c11NewWorld(true)
	n := len(v.Prog)
	gs := make([]*c11G, n)
	results := make([][]int, n)
	errs := make([]string, n)
	parked := make([]string, n) // gate each goroutine is waiting at ("" = finished)
	wait := func(p int) bool {
		select {
		case name := <-gs[p].arrive:
			parked[p] = name
		case <-gs[p].done:
			parked[p] = ""
		case <-time.After(c11StuckAfter):
			c11Stuck++
			return false
		}
		return true
	}
	key := string(raw)
	sig := map[string]interface{}{"goroutines": n}
	for p := 0; p < n; p++ {
		gs[p] = &c11G{arrive: make(chan string), grant: make(chan struct{}), done: make(chan struct{})}
		w.current = gs[p]
		go func(p int) {
			defer close(gs[p].done)
			handles := c11Includers(set)
			for _, op := range v.Prog[p] {
				r, err := c11RunOp(w, set, op, handles)
				if err != nil {
					errs[p] = err.Error()
					r = -1
				}
				results[p] = append(results[p], r)
			}
		}(p)
		if !wait(p) {
			sig["kind"] = "stuck"
			return Result{Sig: sig, Key: key, Detail: fmt.Sprintf("goroutine %d did not reach its first gate", p+1)}
		}
	}
	for k, st := range v.Sched {
		p := int(st[0].(float64)) - 1
		step := st[1].(string)
		if parked[p] != step {
			sig["kind"] = "schedule"
			return Result{Sig: sig, Key: key, Observed: parked[p], Expected: step,
				Detail: fmt.Sprintf("step %d: the specification runs %q in goroutine %d, the implementation is at %q (errors %v)", k, step, p+1, parked[p], errs)}
		}
		w.current = gs[p]
		gs[p].grant <- struct{}{}
		if !wait(p) {
			sig["kind"] = "stuck"
			return Result{Sig: sig, Key: key, Detail: fmt.Sprintf("step %d (%s, goroutine %d) did not finish within 20 s: blocked", k, step, p+1)}
		}
	}
	for p := 0; p < n; p++ {
		if parked[p] != "" {
			sig["kind"] = "schedule"
			return Result{Sig: sig, Key: key, Detail: fmt.Sprintf("goroutine %d still waits at %q after the schedule ended", p+1, parked[p])}
		}
	}
	if !jsonEq(results, v.Results) {
		sig["kind"] = "results"
		return Result{Sig: sig, Key: key, Observed: results, Expected: v.Results,
			Detail: fmt.Sprintf("results %v, specification %v (errors %v)", results, v.Results, errs)}
	}
	return Result{OK: true, Key: key}
}

// ---- C11 (b): the same operation mixes free-running under the race detector ------------------

func c11Race(a []string) int {
	vecFile, reps := a[0], atoi(a[1])
	progs := map[string][][]c11Op{}
	f, err := os.Open(vecFile)
	if err != nil {
		return 2
	}
	dec := json.NewDecoder(f)
	for {
		var v c11Vec
		if err := dec.Decode(&v); err != nil {
			break
		}
		b, _ := json.Marshal(v.Prog)
		progs[string(b)] = v.Prog
	}
	f.Close()
	bad := 0
	report := func(format string, args ...interface{}) {
		bad++
		fmt.Printf("RACE-MIX-MISMATCH "+format+"\n", args...)
	}
	for _, prog := range progs {
		allowedG := map[int]bool{0: true}
		for _, ops := range prog {
			for _, op := range ops {
				if op.K == "AG" {
					allowedG[op.V] = true
				}
			}
		}
		for r := 0; r < reps; r++ {
			w, set := c11NewWorld(false)
			var wg sync.WaitGroup
			for p := range prog {
				wg.Add(1)
				go func(ops []c11Op) {
					defer wg.Done()
					handles := c11Includers(set)
					for _, op := range ops {
						res, err := c11RunOp(w, set, op, handles)
						switch {
						case err != nil:
							report("%v: %v", op, err)
						case (op.K == "GT" || op.K == "PA") && (res < 1 || res > 3):
							report("GetTemplate returned version %d", res)
						case op.K == "EXI" && (res/10 < 1 || res/10 > 3 || !allowedG[res%10]):
							report("Execute(include) rendered %d", res)
						case op.K == "EX" && (res/10 != c11Version(handles[op.N]) || !allowedG[res%10]):
							report("Execute rendered %d, not the output of this template alone", res)
						case op.K == "LG" && !allowedG[res]:
							report("LookupGlobal returned %d", res)
						}
					}
				}(prog[p])
			}
			wg.Wait()
		}
	}
	bad += c11Heavy(reps)
	if bad > 0 {
		return 1
	}
	fmt.Printf("RACE-OK programs=%d reps=%d\n", len(progs), reps)
	return 0
}

// c11Heavy: concurrent executions that populate the struct-field cache with a type never seen
// before, use pooled rangers and run-time includes, while globals and the in-memory loader are edited.
func c11Heavy(reps int) int {
	bad := 0
	var badMu sync.Mutex
	fail := func(format string, args ...interface{}) {
		badMu.Lock()
		bad++
		if bad < 10 {
			fmt.Printf("RACE-MIX-MISMATCH "+format+"\n", args...)
		}
		badMu.Unlock()
	}
	bodyA := strings.Repeat("a", 64)
	bodyB := strings.Repeat("b", 40)
	for r := 0; r < reps; r++ {
		loader := jet.NewInMemLoader()
		loader.Set("/inc.jet", `[{{ .F0 }}{{ .F1 }}]`)
		loader.Set("/heavy.jet", `{{ isset(leak) }}{{ range z := none }}z{{ else }}-{{ end }}{{ range k, v := nomap }}z{{ else }}-{{ end }}{{ range i, x := xs }}{{ i }}{{ x }}{{ range _, y := ys }}{{ y }}{{ end }}{{ end }}|{{ range k, v := m }}{{ k }}{{ v }}{{ range k2, v2 := m }}{{ v2 }}{{ end }}{{ end }}|{{ include "inc" st }}|{{ st.F2 }}|{{ gg }}|{{ we.Deep }}`)
		loader.Set("/edit.jet", bodyA)
		// fails inside a scope that is released by a plain statement, not by a defer, with a variable of its own
		loader.Set("/failing.jet", `{{ range i, x := xs }}{{ if y := x; y }}{{ nosuchfunc() }}{{ end }}{{ end }}`)
		set := jet.NewSet(loader, jet.InDevelopmentMode())
		set.AddGlobal("gg", 7)
		// a struct type no execution has seen yet
		fields := []reflect.StructField{}
		for k := 0; k < 3; k++ {
			fields = append(fields, reflect.StructField{Name: fmt.Sprintf("F%d", k), Type: reflect.TypeOf(""), Tag: reflect.StructTag(fmt.Sprintf(`r:"%d_%d"`, r, time.Now().UnixNano()))})
		}
		st := reflect.New(reflect.StructOf(fields)).Elem()
		for k := 0; k < 3; k++ {
			st.Field(k).SetString(fmt.Sprintf("f%d", k))
		}
		// another fresh type, with a field promoted through an embedded pointer (resolved on the slow path)
		embT := reflect.StructOf([]reflect.StructField{
			{Name: "C11Emb", Type: reflect.TypeOf(&c11Emb{}), Anonymous: true},
			{Name: "U", Type: reflect.TypeOf(""), Tag: reflect.StructTag(fmt.Sprintf(`r:"%d_%d"`, r, time.Now().UnixNano()))}})
		withEmb := reflect.New(embT).Elem()
		withEmb.Field(0).Set(reflect.ValueOf(&c11Emb{Deep: "deep"}))
		nilEmb := reflect.New(embT).Elem()
		loader.Set("/nilemb.jet", `{{ e.Deep }}`)
		want := "false--0prs1qrs|k11|[f0f1]|f2|7|deep"
		// a caching Set: pages without blocks of their own extend a cached layout and import a library that
		// overrides the layout's block; parsing a page must not touch the layout other goroutines are executing
		l2 := jet.NewInMemLoader()
		l2.Set("/base.jet", `{{ block b() }}BASE{{ end }}|{{ yield b() }}`)
		l2.Set("/theme.jet", `{{ block b() }}THEME{{ end }}`)
		for g := 0; g < 4; g++ {
			for k := 0; k < 3; k++ {
				l2.Set(fmt.Sprintf("/page_%d_%d.jet", g, k), `{{ extends "base" }}{{ import "theme" }}`)
			}
		}
		// importers of the library with a block of their own, and a plain user of the library
		for g := 0; g < 4; g++ {
			for k := 0; k < 3; k++ {
				l2.Set(fmt.Sprintf("/own_%d_%d.jet", g, k), `{{ import "theme" }}{{ block b() }}OWN{{ end }}|{{ yield b() }}`)
			}
		}
		l2.Set("/user.jet", `{{ import "theme" }}{{ yield b() }}`)
		// a try that fails after rendering, and one that succeeds
		l2.Set("/tryfail.jet", `{{ try }}PARTIAL{{ nosuchvariable }}{{ end }}`)
		l2.Set("/tryok.jet", `<{{ try }}ok{{ end }}>`)
		// executed without variables right after executions that had some: nothing of theirs is visible, and what a
		// function binds through the Runtime API lands in no one else's VarMap
		l2.Set("/novars.jet", `{{ isset(xs) }}{{ isset(leak) }}{{ isset(st) }}{{ mark() }}{{ isset(marked) }}`)
		set2 := jet.NewSet(l2)
		set2.AddGlobalFunc("mark", func(a jet.Arguments) reflect.Value {
			a.Runtime().LetGlobal("marked", 1)
			return reflect.Value{}
		})
		if _, err := set2.GetTemplate("base"); err != nil {
			fail("base: %v", err)
		}
		var wg sync.WaitGroup
		for g := 0; g < 4; g++ {
			wg.Add(1)
			go func(g int) {
				defer wg.Done()
				defer func() {
					if p := recover(); p != nil {
						fail("panic in goroutine: %v", p)
					}
				}()
				for k := 0; k < 3; k++ {
					// a failed execution (of this or another goroutine) leaves nothing behind in the pooled Runtime
					if tf, err := set.GetTemplate("failing"); err == nil {
						if tf.Execute(io.Discard, jet.VarMap{}.Set("xs", []string{"p"}).Set("leak", "LEAK"), nil) == nil {
							fail("failing.jet did not fail")
						}
					}
					t, err := set.GetTemplate("heavy")
					if err != nil {
						fail("GetTemplate: %v", err)
						return
					}
					vars := jet.VarMap{}
					vars.Set("xs", []string{"p", "q"}).Set("ys", []string{"r", "s"}).Set("none", []string{}).Set("nomap", map[string]int{}).
						Set("m", map[string]int{"k": 1}).Set("st", st.Interface()).Set("we", withEmb.Interface())
					var b bytes.Buffer
					if err := t.Execute(&b, vars, nil); err != nil || b.String() != want {
						fail("heavy rendered %q (err %v), alone it renders %q", b.String(), err, want)
					}
					// the same promoted field on a value whose embedded pointer is nil: an error, whoever looked first
					if tn, err := set.GetTemplate("nilemb"); err == nil {
						if tn.Execute(io.Discard, jet.VarMap{}.Set("e", nilEmb.Interface()), nil) == nil {
							fail("nilemb.jet did not fail")
						}
					}
					if tp, err := set2.GetTemplate(fmt.Sprintf("page_%d_%d", g, k)); err != nil {
						fail("GetTemplate(page): %v", err)
					} else {
						var pb bytes.Buffer
						if err := tp.Execute(&pb, nil, nil); err != nil || pb.String() != "THEME|THEME" {
							fail("page rendered %q (err %v), alone it renders THEME|THEME", pb.String(), err)
						}
					}
					for _, e := range [][2]string{{fmt.Sprintf("own_%d_%d", g, k), "OWN|OWN"}, {"user", "THEME"}, {"tryfail", ""}, {"tryok", "<ok>"}, {"novars", "falsefalsefalsetrue"}} {
						tx, err := set2.GetTemplate(e[0])
						if err != nil {
							fail("GetTemplate(%s): %v", e[0], err)
							continue
						}
						var xb bytes.Buffer
						if err := tx.Execute(&xb, nil, nil); err != nil || xb.String() != e[1] {
							fail("%s rendered %q (err %v), alone it renders %q", e[0], xb.String(), err, e[1])
						}
					}
					if _, leaked := vars["marked"]; leaked || len(vars) != 7 {
						fail("the VarMap given to an earlier Execute was modified by a later execution: %d entries, marked=%v", len(vars), leaked)
					}
					if tb, err := set2.GetTemplate("base"); err == nil {
						var bb bytes.Buffer
						if err := tb.Execute(&bb, nil, nil); err != nil || bb.String() != "BASE|BASE" {
							fail("base rendered %q (err %v), alone it renders BASE|BASE", bb.String(), err)
						}
					}
					switch g {
					case 0:
						set.AddGlobal("other", k)
					case 1:
						set.LookupGlobal("gg")
					case 2:
						if k%2 == 0 {
							loader.Set("/edit.jet", bodyB)
						} else {
							loader.Set("/edit.jet", bodyA)
						}
					case 3:
						te, err := set.GetTemplate("edit")
						if err != nil {
							fail("GetTemplate(edit): %v", err)
							continue
						}
						var eb bytes.Buffer
						te.Execute(&eb, nil, nil)
						if eb.String() != bodyA && eb.String() != bodyB {
							fail("edited template rendered a mixture: %q", eb.String())
						}
					}
				}
			}(g)
		}
		wg.Wait()
	}
	return bad
}

type c11Emb struct{ Deep string }

func init() {
	commands["replay-C11"] = func(a []string) int { return replayLoop(a[0], a[1], c11Replay) }
	commands["race-C11"] = c11Race
}

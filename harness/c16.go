package main

import (
	"bufio"
	"bytes"
	"encoding/json"
	"errors"
	"fmt"
	"io"
	"os"
	"strings"

	"github.com/CloudyKit/jet/v6"
)

// ---- fault-injecting loader: the concrete counterpart of JetSet's `files` ----

type fFile struct {
	K string `json:"k"` // absent | ok | openfail | readfail | bad
	V int    `json:"v"`
	X bool   `json:"x"` // extends "y"
}

type faultLoader struct{ files map[string]fFile }

func (l *faultLoader) Exists(p string) bool {
	f, ok := l.files[p]
	return ok && f.K != "absent"
}

type errReader struct{}

func (errReader) Read([]byte) (int, error) { return 0, errors.New("injected read failure") }
func (errReader) Close() error             { return nil }

// c16Bodyless: files that extend the layout consist of the extends clause alone (an alias page: no node of its own)
var c16Bodyless = false

func c16Content(p string, f fFile) string {
	if f.X && c16Bodyless {
		return `{{extends "y"}}`
	}
	if f.X {
		return fmt.Sprintf(`{{extends "y"}}{{block b()}}%s#%d{{end}}`, p, f.V)
	}
	return fmt.Sprintf(`<%s#%d:{{block b()}}-{{end}}>`, p, f.V)
}

func (l *faultLoader) Open(p string) (io.ReadCloser, error) {
	f, ok := l.files[p]
	if !ok || f.K == "absent" {
		return nil, errors.New("no such file " + p)
	}
	switch f.K {
	case "openfail":
		// the kind of error a stacked (multi) loader reports when none of its members could open the file
		return nil, fmt.Errorf("injected open failure: %w", os.ErrNotExist)
	case "readfail":
		return errReader{}, nil
	case "bad":
		return io.NopCloser(strings.NewReader("{{ if }}{{")), nil
	}
	return io.NopCloser(strings.NewReader(c16Content(p, f))), nil
}

type c16T struct {
	Tid   int    `json:"tid"`
	Path  string `json:"path"`
	Ver   int    `json:"ver"`
	LPath string `json:"lpath"`
	LVer  int    `json:"lver"`
}

func (t c16T) render() string {
	if t.LPath != "" && c16Bodyless && t.Path != "/p" { // the text given to Set.Parse keeps its block
		return fmt.Sprintf("<%s#%d:->", t.LPath, t.LVer)
	}
	if t.LPath == "" {
		return fmt.Sprintf("<%s#%d:->", t.Path, t.Ver)
	}
	return fmt.Sprintf("<%s#%d:%s#%d>", t.LPath, t.LVer, t.Path, t.Ver)
}

type c16Op struct {
	Op    string           `json:"op"`
	N     string           `json:"n"`
	OK    bool             `json:"ok"`
	T     c16T             `json:"t"`
	Calls []callRec        `json:"calls"`
	F     *fFile           `json:"f"`
	World map[string]fFile `json:"world"`
}

type c16Vec struct {
	Exts []string `json:"exts"`
	Dev  bool     `json:"dev"`
	Hist []c16Op  `json:"hist"`
}

type c16Obs struct {
	OK    bool      `json:"ok"`
	Name  string    `json:"name,omitempty"`
	Out   string    `json:"out,omitempty"`
	Err   string    `json:"err,omitempty"`
	Calls []callRec `json:"calls"`
	Ident string    `json:"ident,omitempty"`
}

// c16RunHistory replays the operations of a history on a real Set; returns per-op observations.
// customCache=false uses the Set's default cache (cache calls are then not observable).
// c16Import: the text given to Set.Parse pulls its dependency in with {{import}} instead of {{extends}}; the
// look-ups (and the rule that Parse caches nothing) are the same, what is rendered is not compared
var c16Import = false

func c16RunHistory(v *c16Vec, customCache bool) []c16Obs {
	c16Keep = c16Keep[:0]
	fl := &faultLoader{files: map[string]fFile{}}
	for p, f := range v.Hist[0].World {
		fl.files[p] = f
	}
	rec := &recorder{}
	opts := []jet.Option{jet.WithTemplateNameExtensions(v.Exts), jet.DevelopmentMode(v.Dev)}
	if customCache {
		opts = append(opts, jet.WithCache(&recCache{m: map[string]*jet.Template{}, rec: rec}))
	}
	set := jet.NewSet(&recLoader{fl, rec}, opts...)
	var out []c16Obs
	// the including template is parsed once per history and held by the caller (Parse caches nothing): every
	// execution of it looks the included name up again
	includer := map[string]*jet.Template{}
	for _, op := range v.Hist {
		rec.calls = nil
		var o c16Obs
		switch op.Op {
		case "init":
			o.OK = true
		case "GetTemplate":
			t, err := set.GetTemplate(op.N)
			o = c16Observe(t, err)
		case "ExecInclude":
			t := includer[op.N]
			if t == nil {
				var err error
				if t, err = set.Parse("/zinc", `{{include "`+op.N+`"}}`); err != nil {
					o = c16Obs{Err: "harness: " + err.Error()}
					break
				}
				includer[op.N] = t
			}
			rec.calls = nil
			var b bytes.Buffer
			err := safeExecute(t, &b, nil, nil)
			o.OK = err == nil
			if err != nil {
				o.Err = err.Error()
			} else {
				o.Out = b.String()
			}
		case "ParsePlain":
			t, err := set.Parse("p", `</p#0:{{block b()}}-{{end}}>`)
			o = c16Observe(t, err)
		case "ParseExt":
			src := `{{extends "` + op.N + `"}}{{block b()}}/p#0{{end}}`
			if c16Import {
				src = `{{import "` + op.N + `"}}{{block b()}}/p#0{{end}}`
			}
			t, err := set.Parse("p", src)
			o = c16Observe(t, err)
		case "LoaderSet", "InjectFault", "ClearFault":
			fl.files[op.N] = *op.F
			o.OK = true
		case "LoaderDelete":
			delete(fl.files, op.N)
			o.OK = true
		}
		o.Calls = append([]callRec{}, rec.calls...)
		out = append(out, o)
	}
	return out
}

// every observed template is kept alive so that "%p" identities are never reused after a GC
var c16Keep []*jet.Template

func c16Observe(t *jet.Template, err error) c16Obs {
	var o c16Obs
	if err != nil {
		o.Err = err.Error()
		return o
	}
	if t == nil {
		o.Err = "harness: nil template and nil error"
		return o
	}
	o.OK = true
	o.Name = t.Name
	c16Keep = append(c16Keep, t)
	o.Ident = fmt.Sprintf("%p", t)
	var b bytes.Buffer
	func() {
		defer func() {
			if r := recover(); r != nil {
				o.Out = fmt.Sprint("PANIC: ", r)
			}
		}()
		if e := t.Execute(&b, nil, nil); e != nil {
			o.Out = "EXECERR: " + e.Error()
		} else {
			o.Out = b.String()
		}
	}()
	return o
}

func c16Compare(v *c16Vec, obs []c16Obs, customCache bool) (ok bool, at int, why string) {
	identOf := map[int]string{} // spec tid -> observed pointer
	tidOf := map[string]int{}   // observed pointer -> spec tid
	for i, op := range v.Hist {
		o := obs[i]
		if strings.HasPrefix(o.Err, "harness:") {
			return false, i, o.Err
		}
		if o.OK != op.OK {
			return false, i, fmt.Sprintf("result: spec ok=%v, real ok=%v (%s)", op.OK, o.OK, o.Err)
		}
		exp := op.Calls
		got := o.Calls
		if !customCache {
			exp = nil
			for _, c := range op.Calls {
				if c.Op == "Exists" || c.Op == "Open" {
					exp = append(exp, c)
				}
			}
		}
		if len(exp) != len(got) {
			return false, i, fmt.Sprintf("calls: spec %v, real %v", exp, got)
		}
		for k := range exp {
			if exp[k] != got[k] {
				return false, i, fmt.Sprintf("calls: spec %v, real %v", exp, got)
			}
		}
		if !op.OK || op.T.Tid == 0 || (c16Import && op.Op == "ParseExt") {
			continue
		}
		if want := op.T.render(); o.Out != want {
			return false, i, fmt.Sprintf("rendered %q, spec says %q (stale or wrong template)", o.Out, want)
		}
		if op.Op == "ExecInclude" {
			continue
		}
		if o.Name != op.T.Path {
			return false, i, fmt.Sprintf("template name %q, spec path %q", o.Name, op.T.Path)
		}
		if id, seen := identOf[op.T.Tid]; seen {
			if id != o.Ident {
				return false, i, "identity: spec returns the template of an earlier call, real returned a different object"
			}
		} else if tid, seen := tidOf[o.Ident]; seen && tid != op.T.Tid {
			return false, i, "identity: real returned an earlier object, spec says a fresh template"
		}
		identOf[op.T.Tid] = o.Ident
		tidOf[o.Ident] = op.T.Tid
	}
	return true, -1, ""
}

func c16Sig(v *c16Vec, at int, why string) map[string]interface{} {
	noEmpty := true
	for _, e := range v.Exts {
		if e == "" {
			noEmpty = false
		}
	}
	kind := strings.Fields(strings.SplitN(why, ":", 2)[0])[0]
	return map[string]interface{}{"op": v.Hist[at].Op, "kind": kind, "dev": v.Dev,
		"exts_first_empty": len(v.Exts) > 0 && v.Exts[0] == "", "exts_no_empty": noEmpty}
}

func c16Replay(i int, raw json.RawMessage) Result {
	var v c16Vec
	if err := json.Unmarshal(raw, &v); err != nil {
		return Result{Detail: "bad vector: " + err.Error()}
	}
	key := ""
	for _, op := range v.Hist {
		if op.Op == "GetTemplate" || op.Op == "ExecInclude" || op.Op == "ParseExt" {
			b, _ := json.Marshal(v.Hist)
			key = string(b)
			break
		}
	}
	hasParse := false
	for _, op := range v.Hist {
		hasParse = hasParse || op.Op == "ParseExt"
	}
	hasX := false
	for _, op := range v.Hist {
		hasX = hasX || (op.F != nil && op.F.X)
		for _, f := range op.World {
			hasX = hasX || f.X
		}
	}
	defer func() { c16Bodyless = false }()
	for pass, custom := range []bool{true, false, true, false} {
		c16Import = pass == 2
		c16Bodyless = pass == 3
		if c16Import && !hasParse {
			c16Import = false
			continue
		}
		if c16Bodyless && !hasX {
			break
		}
		obs := c16RunHistory(&v, custom)
		ok, at, why := c16Compare(&v, obs, custom)
		if !ok {
			if strings.HasPrefix(why, "harness:") {
				return Result{Detail: why}
			}
			sig := c16Sig(&v, at, why)
			sig["custom_cache"] = custom
			sig["import"] = c16Import
			sig["bodyless"] = c16Bodyless
			c16Import = false
			return Result{OK: false, Sig: sig, Observed: obs, Key: key,
				Detail: fmt.Sprintf("op %d (%s %s): %s", at, v.Hist[at].Op, v.Hist[at].N, why)}
		}
	}
	c16Import = false
	return Result{OK: true, Key: key}
}

func init() {
	commands["replay-C16"] = func(a []string) int { return replayLoop(a[0], a[1], c16Replay) }
}

// ---- code -> spec: record random histories from the real Set -----------------

func c16ParseOut(s string) (path string, ver int, lpath string, lver int, ok bool) {
	if !strings.HasPrefix(s, "<") || !strings.HasSuffix(s, ">") {
		return
	}
	s = s[1 : len(s)-1]
	parts := strings.SplitN(s, ":", 2)
	if len(parts) != 2 {
		return
	}
	pv := func(x string) (string, int, bool) {
		i := strings.LastIndex(x, "#")
		if i < 0 {
			return "", 0, false
		}
		return x[:i], atoi(x[i+1:]), true
	}
	a, av, ok1 := pv(parts[0])
	if !ok1 {
		return
	}
	if parts[1] == "-" {
		return a, av, "", 0, true
	}
	b, bv, ok2 := pv(parts[1])
	if !ok2 {
		return
	}
	return b, bv, a, av, true
}

// record-C16 <out.ndjson> <cfg.ndjson> <seed> <ntraces> <len> <dev:0|1> <ext>...
func c16Record(a []string) int {
	out, cfg, seed, ntr, ln, dev := a[0], a[1], atoi(a[2]), atoi(a[3]), atoi(a[4]), a[5] == "1"
	exts := a[6:]
	for i := range exts {
		if exts[i] == "-" {
			exts[i] = ""
		}
	}
	cf, _ := os.Create(cfg)
	json.NewEncoder(cf).Encode(map[string]interface{}{"exts": exts, "dev": dev})
	cf.Close()
	f, err := os.Create(out)
	if err != nil {
		return 2
	}
	defer f.Close()
	w := bufio.NewWriter(f)
	defer w.Flush()
	enc := json.NewEncoder(w)
	rng := newRand(int64(seed))
	paths := []string{"/x", "/x.jet", "/y", "/y.jet"}
	names := []string{"x", "y", "x.jet"}
	faults := []string{"openfail", "readfail", "bad"}
	for tr := 0; tr < ntr; tr++ {
		c16Keep = c16Keep[:0]
		world := map[string]fFile{}
		for _, p := range paths {
			ff := fFile{K: "absent"}
			if rng.Intn(2) == 0 {
				ff = fFile{K: "ok", V: 1, X: strings.HasPrefix(p, "/x") && rng.Intn(2) == 0}
			}
			world[p] = ff
		}
		enc.Encode(map[string]interface{}{"op": "init", "world": world})
		fl := &faultLoader{files: map[string]fFile{}}
		for p, ff := range world {
			fl.files[p] = ff
		}
		rec := &recorder{}
		set := jet.NewSet(&recLoader{fl, rec}, jet.WithTemplateNameExtensions(exts), jet.DevelopmentMode(dev),
			jet.WithCache(&recCache{m: map[string]*jet.Template{}, rec: rec}))
		idents := map[string]int{}
		edits := 1
		for k := 0; k < ln; k++ {
			ev := map[string]interface{}{}
			rec.calls = nil
			var o c16Obs
			isLookup := true
			switch r := rng.Intn(100); {
			case r < 35:
				n := names[rng.Intn(3)]
				ev["op"], ev["n"] = "GetTemplate", n
				t, err := set.GetTemplate(n)
				o = c16Observe(t, err)
			case r < 45:
				n := names[rng.Intn(3)]
				ev["op"], ev["n"] = "ExecInclude", n
				t, err := set.Parse("/zinc", `{{include "`+n+`"}}`)
				if err != nil {
					fmt.Fprintln(os.Stderr, "harness:", err)
					return 2
				}
				rec.calls = nil
				var b bytes.Buffer
				err = safeExecute(t, &b, nil, nil)
				o.OK = err == nil
				o.Out = b.String()
			case r < 50:
				ev["op"], ev["n"] = "ParsePlain", "p"
				t, err := set.Parse("p", `</p#0:{{block b()}}-{{end}}>`)
				o = c16Observe(t, err)
			case r < 60:
				n := []string{"y", "x"}[rng.Intn(2)]
				ev["op"], ev["n"] = "ParseExt", n
				t, err := set.Parse("p", `{{extends "`+n+`"}}{{block b()}}/p#0{{end}}`)
				o = c16Observe(t, err)
			default:
				isLookup = false
				p := paths[rng.Intn(4)]
				cur := fl.files[p]
				if cur.K == "" {
					cur.K = "absent"
				}
				ev["n"] = p
				switch q := rng.Intn(4); {
				case q == 0 && cur.K != "absent":
					ev["op"] = "LoaderDelete"
					delete(fl.files, p)
					ev["f"] = fFile{K: "absent"}
				case q == 1 && cur.K == "ok":
					ev["op"] = "InjectFault"
					cur.K = faults[rng.Intn(3)]
					cur.X = false
					fl.files[p] = cur
					ev["f"] = cur
				case q == 2 && (cur.K == "openfail" || cur.K == "readfail" || cur.K == "bad"):
					ev["op"] = "ClearFault"
					cur.K = "ok"
					fl.files[p] = cur
					ev["f"] = cur
				default:
					ev["op"] = "LoaderSet"
					edits++
					nf := fFile{K: "ok", V: edits, X: strings.HasPrefix(p, "/x") && rng.Intn(2) == 0}
					fl.files[p] = nf
					ev["f"] = nf
				}
			}
			if isLookup {
				ev["ok"] = o.OK
				calls := append([]callRec{}, rec.calls...)
				ev["calls"] = calls
				ev["path"], ev["ver"], ev["lpath"], ev["lver"], ev["ident"] = "", 0, "", 0, 0
				if o.OK {
					p, v, lp, lv, ok := c16ParseOut(o.Out)
					if !ok {
						// the template rendered something that is not one of the catalogue forms
						ev["path"] = "UNPARSABLE-OUTPUT:" + o.Out
					} else {
						ev["path"], ev["ver"], ev["lpath"], ev["lver"] = p, v, lp, lv
					}
					if o.Name != "" && ok && o.Name != p && ev["op"] == "GetTemplate" {
						ev["path"] = "NAME-MISMATCH:" + o.Name
					}
					if o.Ident != "" {
						id, seen := idents[o.Ident]
						if !seen {
							id = len(idents) + 1
							idents[o.Ident] = id
						}
						ev["ident"] = id
					}
				}
			}
			enc.Encode(ev)
		}
	}
	return 0
}

func init() { commands["record-C16"] = c16Record }

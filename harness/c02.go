package main

import (
	"bufio"
	"encoding/json"
	"fmt"
	"io"
	"os"
	"os/exec"
	"path/filepath"
	"regexp"
	"runtime"
	"strings"
	"sync"
	"time"

	"github.com/CloudyKit/jet/v6"
)

// ---- C02: parsing is total. Every input is parsed in a worker process (a panic in the lexer
// goroutine cannot be recovered), with a deadline, and the goroutine count is observed.

type c02Vec struct {
	Toks    []string `json:"toks"`
	Verdict string   `json:"verdict"`
	Ctx     string   `json:"ctx"`
	Lexs    []string `json:"lexs"`
	Glue    bool     `json:"glue"`
	Src     string   `json:"src"`  // derived inputs (truncations)
	Kind    string   `json:"kind"` // "struct" | "lexeme" | "trunc"
	Cfg     string   `json:"cfg"`
}

func c02Token(tok string, c c03Cfg) string {
	a := func(s string) string { return c.LD + " " + s + " " + c.RD }
	switch tok {
	case "TEXT":
		return "t"
	case "WS":
		return " \t"
	case "ACT":
		return a("x")
	case "IF":
		return a("if x")
	case "ELSE":
		return a("else")
	case "ELSEIF":
		return a("else if x")
	case "RANGE":
		return a("range x")
	case "BLOCK":
		return a("block b()")
	case "CONTENT":
		return a("content")
	case "YIELDC":
		return a("yield b() content")
	case "TRY":
		return a("try")
	case "CATCH":
		return a("catch")
	case "END":
		return a("end")
	case "EXTENDS":
		return a(`extends "l"`)
	case "IMPORT":
		return a(`import "i"`)
	case "EXTENDS_BADSTR":
		return a(`extends "..\layouts\qmain.jet"`)
	case "IMPORT_BADSTR":
		return a(`import "a\q"`)
	case "EXTENDS_BROKEN":
		return a(`extends "lb"`)
	case "IMPORT_BROKEN":
		return a(`import "xb"`)
	case "INCLUDE":
		return a(`include "i"`)
	case "RETURN":
		return a("return x")
	case "COMMENT":
		return c.LC + " c " + c.RC
	case "OPEN_ACTION":
		return c.LD + " x"
	case "OPEN_COMMENT":
		return c.LC + " c"
	case "OPEN_COMMENT_OVERLAP":
		// the opening marker directly followed by the rest of the closing one ({*}): still open
		return c.LC + c.RC[1:]
	case "OPEN_STRING":
		return c.LD + ` "abc ` + c.RD
	}
	return "?" + tok
}

var c02Lexeme = map[string]string{
	"ident": "abc", "under": "_", "underletter": "_a", "undermb": "_é", "mbident": "éa", "field": ".F", "dot": ".", "int": "1", "float": "1.5",
	"signedint": "-1", "hex": "0x1F", "badnum": "1x", "imag": "2i", "string": `"s"`, "rawstring": "`r`", "char": "'c'", "openstring": `"abc`,
	"openraw": "`abc", "openchar": "'c", "plus": "+", "minus": "-", "mul": "*", "div": "/", "mod": "%", "eq": "==", "neq": "!=", "lt": "<",
	"le": "<=", "assign": "=", "decl": ":=", "and": "&&", "or": "||", "amp": "&", "not": "!", "pipe": "|", "comma": ",", "semi": ";",
	"colon": ":", "question": "?", "lparen": "(", "rparen": ")", "lbrack": "[", "rbrack": "]", "space": " ", "newline": "\n", "kwif": "if",
	"kwend": "end", "kwnil": "nil", "kwrange": "range", "kwcontent": "content", "symbol": "€", "control": "\x01", "badutf8": "\xff\xfe",
	"nbsp": " ", "true": "true", "ampfield": "1&.F", "bigint": "18446744073709551616", "bigexp": "1e999", "multichar": "'ab'", "mbdigit": "٣", "mbspace": "\u2003",
}

func c02LexSource(ctx string, lexs []string, glue bool, c c03Cfg) string {
	var b strings.Builder
	for i, l := range lexs {
		if i > 0 && !glue {
			b.WriteString(" ")
		}
		txt, known := c02Lexeme[l]
		if !known {
			panic("harness: unknown lexeme class " + l)
		}
		b.WriteString(txt)
	}
	body := b.String()
	w := func(s string) string { return c.LD + " " + s + " " + c.RD }
	end := w("end")
	switch ctx {
	case "plain":
		return "a\n" + w(body) + "\nb"
	case "if":
		return w("if "+body) + "x" + end
	case "range":
		return w("range "+body) + "x" + end
	case "block":
		return w("block b("+body+")") + "x" + end
	case "yield":
		return w("yield b(" + body + ")")
	case "catch":
		return w("try") + w("catch "+body) + end
	case "include":
		return w("include " + body)
	case "return":
		return w("return " + body)
	case "pipe":
		return w("x | " + body)
	case "paren":
		return w("f(" + body + ")")
	case "index":
		return w("a[" + body + "]")
	case "try":
		return w("try "+body) + end
	case "extends":
		return w("extends " + body)
	}
	return w(body)
}

// worker protocol: one JSON request per line on stdin, one JSON answer per line on stdout
type c02Req struct {
	Cfg string `json:"cfg"`
	Src string `json:"src"`
}
type c02Ans struct {
	OK        bool   `json:"ok"`  // template returned
	Err       string `json:"err"` // error returned
	Panic     string `json:"panic,omitempty"`
	Hang      bool   `json:"hang,omitempty"`
	Leak      int    `json:"leak,omitempty"`
	NilBoth   bool   `json:"nilboth,omitempty"`
	ViaLoader string `json:"vialoader,omitempty"` // outcome of Set.GetTemplate on the same source differs
}

func c02Worker(_ []string) int {
	// a fresh, caching Set per request: a failed parse must fail again on the second lookup
	mkSet := func(name string) (*jet.Set, *jet.InMemLoader) {
		c := c03Cfgs[name]
		l := jet.NewInMemLoader()
		l.Set("/l.jet", "layout")
		l.Set("/i.jet", c.LD+" block ib() "+c.RD+"x"+c.LD+" end "+c.RD)
		// referenced templates with a structural mistake, one of them a level further down
		l.Set("/lb.jet", c.LD+` extends "lb2" `+c.RD+"x")
		l.Set("/lb2.jet", "a\n"+c.LD+" if x "+c.RD+"never closed")
		// well-formed neighbours under later extensions: a broken template is an error, not a reason to look further
		l.Set("/t.jet.jet", "sibling")
		l.Set("/lb.html.jet", "sibling layout")
		l.Set("/xb.jet.html", c.LD+" block xb() "+c.RD+"x"+c.LD+" end "+c.RD)
		l.Set("/xb.jet", c.LD+" block xb() "+c.RD+"x"+c.LD+" end "+c.RD+c.LD+" end "+c.RD)
		opts := []jet.Option{}
		if name != "A" {
			opts = append(opts, jet.WithDelims(c.LD, c.RD))
			if name != "B" {
				if name == "F" {
					opts = append(opts, jet.WithCommentDelims(c.LC, ""))
				} else {
					opts = append(opts, jet.WithCommentDelims(c.LC, c.RC))
				}
			}
		}
		return jet.NewSet(l, opts...), l
	}
	in := bufio.NewReaderSize(os.Stdin, 1<<20)
	out := bufio.NewWriter(os.Stdout)
	enc := json.NewEncoder(out)
	// protocol trace (VERIF_LEXTRACE=<dir>): per lexer, the parser goroutine's events in their own order and
	// whether the lexer goroutine logged its close; one line per parse, validated against Trace_LexProc.tla
	type lexRec struct {
		P      []map[string]interface{} `json:"p"`
		Closed bool                     `json:"closed"`
		Src    string                   `json:"src"`
		Cfg    string                   `json:"cfg"`
	}
	var (
		tmu    sync.Mutex
		recs   = map[uint64]*lexRec{}
		order  []uint64
		tracew *bufio.Writer
		shapes = map[string]bool{} // event shapes already written by this worker (the trace spec sees only the shape)
		parses int
	)
	const maxEvents = 400 // a parse that logs more is not going to end: keep the prefix (it is rejected as it stands)
	if dir := os.Getenv("VERIF_LEXTRACE"); dir != "" {
		if f, err := os.Create(filepath.Join(dir, fmt.Sprintf("lex.%d.ndjson", os.Getpid()))); err == nil {
			tracew = bufio.NewWriterSize(f, 1<<20)
			defer f.Close()
			defer tracew.Flush()
			defer func() { json.NewEncoder(tracew).Encode(map[string]int{"count": parses}) }()
			jet.VerifSetTracer(func(e jet.VerifEvent) {
				if e.Rt != 0 || len(e.Args) == 0 || !(strings.HasPrefix(e.Ev, "lex.") || strings.HasPrefix(e.Ev, "parse.")) {
					return
				}
				id, _ := e.Args[0].(uint64)
				tmu.Lock()
				defer tmu.Unlock()
				r := recs[id]
				if r == nil {
					r = &lexRec{P: []map[string]interface{}{}}
					recs[id] = r
					order = append(order, id)
				}
				if len(r.P) >= maxEvents {
					return
				}
				switch e.Ev {
				case "lex.close":
					r.Closed = true
				case "lex.recv":
					r.P = append(r.P, map[string]interface{}{"ev": "recv", "typ": e.Args[1]})
				default:
					r.P = append(r.P, map[string]interface{}{"ev": e.Ev[strings.IndexByte(e.Ev, '.')+1:]})
				}
			})
		}
	}
	flushTrace := func(rq c02Req) {
		if tracew == nil {
			return
		}
		tmu.Lock()
		defer tmu.Unlock()
		tenc := json.NewEncoder(tracew)
		for _, id := range order {
			r := recs[id]
			parses++
			shape, _ := json.Marshal([]interface{}{r.P, r.Closed})
			if shapes[string(shape)] {
				continue
			}
			shapes[string(shape)] = true
			r.Src, r.Cfg = rq.Src, rq.Cfg
			tenc.Encode(r)
		}
		if parses >= 1000 {
			// how many parses the written shapes stand for
			tenc.Encode(map[string]int{"count": parses})
			parses = 0
		}
		recs, order = map[uint64]*lexRec{}, nil
		tracew.Flush()
	}
	for {
		line, err := in.ReadBytes('\n')
		if len(line) > 0 {
			var rq c02Req
			json.Unmarshal(line, &rq)
			base := runtime.NumGoroutine()
			var ans c02Ans
			done := make(chan struct{})
			go func() {
				defer close(done)
				defer func() {
					if r := recover(); r != nil {
						ans.Panic = fmt.Sprint(r)
					}
				}()
				set, loader := mkSet(rq.Cfg)
				t, e := set.Parse("/t.jet", rq.Src)
				ans.OK = t != nil && e == nil
				if e != nil {
					ans.Err = e.Error()
				}
				ans.NilBoth = t == nil && e == nil
				// the same source through the loader, twice (the second answer may come from the cache)
				loader.Set("/t.jet", rq.Src)
				for round := 1; round <= 2; round++ {
					t2, e2 := set.GetTemplate("/t.jet")
					if (t2 != nil && e2 == nil) != ans.OK || (e2 == nil && t2 != nil && t2.Root == nil) {
						ans.ViaLoader = fmt.Sprintf("GetTemplate call %d: template=%v usable=%v err=%v", round, t2 != nil, t2 != nil && t2.Root != nil, e2)
						break
					}
				}
			}()
			select {
			case <-done:
			case <-time.After(c02HangDeadline):
				ans.Hang = true
			}
			if !ans.Hang && ans.Panic == "" {
				// goroutines must be gone (poll up to 5 s; a loaded machine may be slow to schedule the lexer's exit)
				wait := 20 * time.Microsecond
				for total := time.Duration(0); total < 5*time.Second && runtime.NumGoroutine() > base; total += wait {
					runtime.Gosched()
					if runtime.NumGoroutine() <= base {
						break
					}
					time.Sleep(wait)
					if wait < 20*time.Millisecond {
						wait *= 2
					}
				}
				ans.Leak = runtime.NumGoroutine() - base
			}
			flushTrace(rq)
			enc.Encode(&ans)
			out.Flush()
			if ans.Hang {
				return 0 // a hung parse poisons the worker: let the parent restart it
			}
		}
		if err != nil {
			return 0
		}
	}
}

type c02Pool struct {
	cmd *exec.Cmd
	in  io.WriteCloser
	out *bufio.Reader
}

func (p *c02Pool) start() error {
	exe, _ := os.Executable()
	p.cmd = exec.Command(exe, "c02-worker")
	p.cmd.Stderr = nil
	var err error
	if p.in, err = p.cmd.StdinPipe(); err != nil {
		return err
	}
	so, err := p.cmd.StdoutPipe()
	if err != nil {
		return err
	}
	p.out = bufio.NewReaderSize(so, 1<<20)
	return p.cmd.Start()
}

// ask parses one source in the worker; a dead worker is reported as a crash and restarted
func (p *c02Pool) ask(rq c02Req) (c02Ans, bool) {
	if p.cmd == nil {
		if err := p.start(); err != nil {
			return c02Ans{}, false
		}
	}
	b, _ := json.Marshal(rq)
	p.in.Write(append(b, '\n'))
	line, err := p.out.ReadBytes('\n')
	if err != nil {
		p.cmd.Wait()
		p.cmd = nil
		return c02Ans{Panic: "worker process died (panic in a goroutine other than the caller's)"}, true
	}
	var a c02Ans
	json.Unmarshal(line, &a)
	if a.Hang {
		p.cmd.Process.Kill()
		p.cmd.Wait()
		p.cmd = nil
	}
	return a, true
}

var truncMaxToks = 3

// generous, so that a loaded machine cannot turn a slow parse into a "hang"; real hangs are rare and
// each costs the whole deadline, so a replay stops judging after c02MaxSlow of them (the check has failed by then)
const (
	c02HangDeadline = 10 * time.Second
	c02MaxSlow      = 8
)

var c02ErrLine = regexp.MustCompile(`/t\.jet:(\d+)`)

// a syntax error of a referenced template may be reported under that template's name alone
var c02ErrLineRef = regexp.MustCompile(`/(?:lb|lb2|xb)\.jet:(\d+)`)

func c02Judge(v *c02Vec, src string, a c02Ans) (bool, string, string) {
	switch {
	case a.Panic != "":
		return false, "crash", "Parse panicked: " + a.Panic
	case a.Hang:
		return false, "hang", "Parse did not return within 10 s"
	case a.Leak > 0:
		return false, "leak", fmt.Sprintf("%d goroutine(s) still running 5 s after Parse returned", a.Leak)
	case a.NilBoth:
		return false, "nilboth", "Parse returned neither a template nor an error"
	case a.ViaLoader != "":
		return false, "loader", "Parse and GetTemplate disagree: " + a.ViaLoader
	}
	if a.Err != "" {
		m := c02ErrLine.FindStringSubmatch(a.Err)
		lines := strings.Count(src, "\n") + 1
		if m == nil {
			if m = c02ErrLineRef.FindStringSubmatch(a.Err); m != nil {
				lines = 2
			}
		}
		if m == nil {
			return false, "errortext", fmt.Sprintf("error %q does not name the template and a line", a.Err)
		}
		if n := atoi(m[1]); n < 1 || n > lines {
			return false, "errorline", fmt.Sprintf("error %q names line %d, the source has %d line(s)", a.Err, n, lines)
		}
	}
	if v.Verdict == "accept" && !a.OK {
		return false, "rejected", "a well-formed template was rejected: " + a.Err
	}
	if v.Verdict == "reject" && a.OK {
		return false, "accepted", "a structural mistake was silently accepted"
	}
	return true, "", ""
}

// c02AfterFailedOpen: GetTemplate does not hang - also not after a lookup whose Open failed (the template was deleted
// between Exists and Open) and a loader edit that followed it
func c02AfterFailedOpen() *Result {
	done := make(chan string, 1)
	go func() {
		defer func() {
			if r := recover(); r != nil {
				done <- fmt.Sprintf("PANIC: GetTemplate panicked instead of returning the loader's error: %v", r)
			}
		}()
		l := jet.NewInMemLoader()
		l.Set("/a.jet", "a")
		set := jet.NewSet(&c02VanishingLoader{InMemLoader: l, vanish: "/gone.jet"})
		l.Set("/gone.jet", "x")
		if _, err := set.GetTemplate("/gone.jet"); err == nil {
			done <- "GetTemplate of a template whose Open fails returned no error"
			return
		}
		l.Set("/b.jet", "b") // a loader edit after the failed Open
		if _, err := set.GetTemplate("/b.jet"); err != nil {
			done <- "GetTemplate(/b.jet) after the edit: " + err.Error()
			return
		}
		done <- ""
	}()
	select {
	case why := <-done:
		if strings.HasPrefix(why, "PANIC") {
			return &Result{Sig: map[string]interface{}{"kind": "crash", "cfg": "A", "family": "history", "ctx": "", "lexs": "", "glue": false, "verdict": ""}, Key: "history", Detail: why}
		}
		if why != "" {
			return &Result{Sig: map[string]interface{}{"kind": "after-failed-open", "cfg": "A", "family": "history", "ctx": "", "lexs": "", "glue": false, "verdict": ""}, Key: "history", Detail: why}
		}
	case <-time.After(c02HangDeadline):
		return &Result{Sig: map[string]interface{}{"kind": "hang", "cfg": "A", "family": "history", "ctx": "", "lexs": "", "glue": false, "verdict": ""}, Key: "history",
			Detail: "after a GetTemplate whose Open failed, a loader edit followed by another GetTemplate did not return within 10 s"}
	}
	return nil
}

// c02VanishingLoader: Exists says yes for one path, but by the time it is opened the file has been deleted
type c02VanishingLoader struct {
	*jet.InMemLoader
	vanish string
}

func (l *c02VanishingLoader) Open(p string) (io.ReadCloser, error) {
	if p == l.vanish {
		l.InMemLoader.Delete(p)
		return nil, fmt.Errorf("open %s: no such file", p) // the usual (nil, err) of a loader
	}
	return l.InMemLoader.Open(p)
}

func c02Replay(cfgName string) func(i int, raw json.RawMessage) Result {
	pool := &c02Pool{}
	cfg := c03Cfgs[cfgName]
	slow := 0
	return func(i int, raw json.RawMessage) Result {
		if slow >= c02MaxSlow {
			return Result{OK: true}
		}
		var v c02Vec
		if err := json.Unmarshal(raw, &v); err != nil {
			return Result{Detail: "bad vector: " + err.Error()}
		}
		if i == 0 && cfgName == "A" {
			if r := c02AfterFailedOpen(); r != nil {
				return *r
			}
		}
		var srcs []string
		kind := "struct"
		switch {
		case v.Lexs != nil || v.Ctx != "":
			kind = "lexeme"
			full := c02LexSource(v.Ctx, v.Lexs, v.Glue, cfg)
			srcs = []string{full}
			// the same action cut off right behind its last lexeme, and behind one more blank
			if k := strings.LastIndex(full, " "+cfg.RD); k > 0 {
				first := strings.Index(full, " "+cfg.RD)
				srcs = append(srcs, full[:first], full[:first+1])
				_ = k
			}
		default:
			parts := []string{}
			for _, t := range v.Toks {
				parts = append(parts, c02Token(t, cfg))
			}
			full := strings.Join(parts, "\n")
			srcs = []string{full}
			if v.Verdict == "accept" && len(v.Toks) >= 2 && len(v.Toks) <= truncMaxToks {
				// every truncation of a valid template must still be handled (no verdict: totality only)
				for k := 1; k < len(full); k++ {
					srcs = append(srcs, full[:k])
				}
			}
		}
		for k, src := range srcs {
			vv := v
			if k > 0 {
				vv.Verdict = "" // truncations: totality only
			}
			a, ok := pool.ask(c02Req{cfgName, src})
			if !ok {
				return Result{Detail: "harness: cannot start worker"}
			}
			if good, why, detail := c02Judge(&vv, src, a); !good {
				if why == "hang" || why == "leak" {
					slow++
				}
				what := kind
				if k > 0 {
					what = "trunc"
				}
				sig := map[string]interface{}{"kind": why, "family": what, "cfg": cfgName, "ctx": v.Ctx,
					"lexs": strings.Join(v.Lexs, " "), "glue": v.Glue, "verdict": v.Verdict}
				return Result{Sig: sig, Key: cfgName + ":" + src, Observed: a, Detail: fmt.Sprintf("[%s] %q: %s", cfgName, src, detail)}
			}
		}
		return Result{OK: true, Key: cfgName + ":" + srcs[0]}
	}
}

func init() {
	commands["c02-worker"] = c02Worker
	commands["replay-C02"] = func(a []string) int { return replayLoop(a[0], a[1], c02Replay(a[2])) }
}

package main

import (
	"bufio"
	"encoding/json"
	"fmt"
	"github.com/CloudyKit/jet/v6"
	"io"
	"math/rand"
	"os"
	"sync"
)

// Result of replaying one vector (or validating one recorded case).
type Result struct {
	I        int                    `json:"i"`
	OK       bool                   `json:"ok"`
	Sig      map[string]interface{} `json:"sig,omitempty"`
	Observed interface{}            `json:"observed,omitempty"`
	Expected interface{}            `json:"expected,omitempty"`
	Detail   string                 `json:"detail,omitempty"`
	Case     interface{}            `json:"case,omitempty"`
	Key      string                 `json:"key,omitempty"` // distinctness key of a non-trivial case
}

// replayLoop reads NDJSON vectors, calls fn on each, writes NDJSON results.
// Only failing results carry the full case (keeps result files small).
func replayLoop(in, out string, fn func(i int, raw json.RawMessage) Result) int {
	f, err := os.Open(in)
	if err != nil {
		fmt.Fprintln(os.Stderr, err)
		return 2
	}
	defer f.Close()
	o, err := os.Create(out)
	if err != nil {
		fmt.Fprintln(os.Stderr, err)
		return 2
	}
	defer o.Close()
	w := bufio.NewWriterSize(o, 1<<20)
	defer w.Flush()
	sc := bufio.NewScanner(f)
	sc.Buffer(make([]byte, 1<<20), 1<<26)
	enc := json.NewEncoder(w)
	i := 0
	for sc.Scan() {
		line := sc.Bytes()
		if len(line) == 0 {
			continue
		}
		raw := append(json.RawMessage(nil), line...)
		r := fn(i, raw)
		r.I = i
		if !r.OK {
			var c interface{}
			json.Unmarshal(raw, &c)
			r.Case = c
		}
		enc.Encode(&r)
		i++
	}
	if err := sc.Err(); err != nil {
		fmt.Fprintln(os.Stderr, err)
		return 2
	}
	return 0
}

func jsonEq(a, b interface{}) bool {
	x, _ := json.Marshal(a)
	y, _ := json.Marshal(b)
	return string(x) == string(y)
}

func atoi(s string) int {
	n := 0
	fmt.Sscanf(s, "%d", &n)
	return n
}

func newRand(seed int64) *rand.Rand { return rand.New(rand.NewSource(seed)) }

// safeExecute turns a panic escaping Execute into an error the harness can report as an
// observation (a panic in library code is a behaviour of the implementation, not of the harness).
func safeExecute(t *jet.Template, w io.Writer, vars jet.VarMap, data interface{}) (err error) {
	defer func() {
		if r := recover(); r != nil {
			err = fmt.Errorf("PANIC escaped Execute: %v", r)
		}
	}()
	return t.Execute(w, vars, data)
}

// installTracer: with VERIF_TRACE set, every interpreter event (verif hooks) is appended to that file.
func installTracer() func() {
	path := os.Getenv("VERIF_TRACE")
	if path == "" {
		return func() {}
	}
	f, err := os.Create(path)
	if err != nil {
		return func() {}
	}
	w := bufio.NewWriterSize(f, 1<<20)
	enc := json.NewEncoder(w)
	var mu sync.Mutex
	jet.VerifSetTracer(func(e jet.VerifEvent) {
		mu.Lock()
		enc.Encode(map[string]interface{}{"rt": e.Rt, "seq": e.Seq, "ev": e.Ev, "depth": e.Depth, "ctx": e.Ctx,
			"content": e.Content, "writer": e.Writer, "outlen": e.OutLen, "args": e.Args})
		mu.Unlock()
	})
	return func() {
		jet.VerifSetTracer(nil)
		mu.Lock()
		w.Flush()
		f.Close()
		mu.Unlock()
	}
}

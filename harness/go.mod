module verif/harness

go 1.21

require github.com/CloudyKit/jet/v6 v6.0.0

require github.com/CloudyKit/fastprinter v0.0.0-20200109182630-33d98a066a53 // indirect

replace github.com/CloudyKit/jet/v6 => /repo

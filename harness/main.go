package main

import (
	"fmt"
	"os"
)

// jetharness: conformance harness binding the TLA+ specifications in ../spec to the
// real CloudyKit/jet library built from /repo's working tree.
//
//	jetharness replay <prop> <vectors.ndjson> <result.json>   spec -> code
//	jetharness record <prop> <out.ndjson> [args]              code -> spec
//
// The harness never computes an expected value itself: expectations come from TLC.
func main() {
	if len(os.Args) < 2 {
		fmt.Fprintln(os.Stderr, "usage: jetharness <cmd> ...")
		os.Exit(2)
	}
	cmd, ok := commands[os.Args[1]]
	if !ok {
		fmt.Fprintln(os.Stderr, "unknown command", os.Args[1])
		os.Exit(2)
	}
	os.Exit(cmd(os.Args[2:]))
}

var commands = map[string]func([]string) int{}

package main

import (
	"bytes"
	"encoding/json"
	"errors"
	"fmt"
	"io"
	"math/rand"
	"os"
	"reflect"
	"regexp"
	"runtime"
	"sort"
	"strconv"
	"strings"
	"sync"
	"text/template"
	"time"

	"github.com/CloudyKit/jet/v6"
)

// ---- abstract programs as emitted by TLC from spec/JetExec.tla ---------------------------

type xExpr struct {
	K  string   `json:"k"`
	A  string   `json:"a"`
	Vs []string `json:"vs"`
}
type xPar struct {
	N string `json:"n"`
	E xExpr  `json:"e"`
}
type xStmt struct {
	Op string  `json:"op"`
	ID string  `json:"id"`
	N  string  `json:"n"`
	N2 string  `json:"n2"`
	E  xExpr   `json:"e"`
	E2 xExpr   `json:"e2"`
	B  []xStmt `json:"b"`
	B2 []xStmt `json:"b2"`
	F  string  `json:"f"`
	G  string  `json:"g"`
	Ps []xPar  `json:"ps"`
}
type xTmpl struct {
	Name string   `json:"name"`
	Ext  string   `json:"ext"`
	Imps []string `json:"imps"`
	Body []xStmt  `json:"body"`
}
type xRun struct {
	Entry string            `json:"entry"`
	Vars  map[string]string `json:"vars"`
	Data  string            `json:"data"`
}
type xErr struct {
	On    bool   `json:"on"`
	Class string `json:"class"`
	ID    string `json:"id"`
}
type xResult struct {
	Out []string `json:"out"`
	Err xErr     `json:"err"`
}
type xCase struct {
	Ts      []xTmpl           `json:"ts"`
	Globals map[string]string `json:"globals"`
	Runs    []xRun            `json:"runs"`
}
type xVec struct {
	Case    xCase     `json:"case"`
	Results []xResult `json:"results"`
	Tag     string    `json:"tag"`
}

const xUnset = "<unset>"

// the failure classes of C12 as concrete Jet expressions over the harness globals (see xBuild)
var errExpr = map[string]string{
	"identifier":              "nosuchvar",
	"field":                   "gst.Nosuch",
	"unexported":              "gst.hidden",
	"method":                  "gst.NoMethod()",
	"nilderef":                "gnilp.Name",
	"nilderef-embedded":       "gholdernil.Deep", // a field promoted through an embedded pointer that is nil (after the same field was read through a non-nil one)
	"mapfield-ok":             "gst.Nosuch.Deeper",
	"mapchain-missing":        "gmapany.nokey.deeper", // only the LAST field of a chain may be a missing map key
	"index-range":             "gsl[5]",
	"index-len":               "gsl[3]",
	"index-empty":             "gempty[0]",
	"index-neg":               "gsl[-1]",
	"index-str":               "gstr[7]",
	"index-strlen":            "gstr[3]",
	"index-kind":              `gsl["x"]`,
	"index-nil":               "gsl[nil]",
	"slice-bound":             "gsl[1:9]",
	"slice-kind":              `gsl["a":2]`,
	"operand-mul":             `gstr * 2`,
	"operand-add":             `gst + 1`,
	"operand-neg":             `-gstr`,
	"operand-cmp":             `gstr < 1`,
	"calltarget":              "gstr(1)",
	"calltarget-nil":          "gnil(1)",
	"calltarget-nil-noargs":   "gnil()",
	"range-invalid":           "gnil",
	"range-nilliteral":        "nil",
	"argcount":                `lower("a", "b")`,
	"argcount-jetfunc":        `len("a", "b")`,
	"argtype":                 `repeat("a", "b")`,
	"argtype-iface":           `gstringer(1)`, // a parameter of a non-empty interface type and an argument that does not implement it
	"argtype-iface-variadic":  `gstringers("-", 1)`,
	"argtype-iface-piped":     `1 | gstringer`,
	"arg-invalid":             `lower(gnil)`,
	"underscore":              `lower(_)`,
	"underscore-jetfunc":      `len(_)`,
	"underscore-variadic":     `gjoin("-", "a", _)`,
	"argcount-variadic":       `gjoin()`,
	"func":                    "fail()",
	"func-wrapsrt":            "gwrapsrt()", // a function reporting an error that wraps a runtime error it caught itself
	"argcount-jetfunc0":       "gnoargs(1)", // a jet.Func that accepts no arguments (RequireNumOfArguments(name, 0, 0))
	"argcount-jetfunc0-piped": "1 | gnoargs",
	"panic":                   "gpanic()",   // a user function panicking with a value that is not an error: escapes Execute
	"rterror":                 "grterror()", // a user function hitting a Go runtime error (write to a nil map): escapes Execute too
	"len-kind":                "len(5)",
	"ints-range":              "ints(3, 1)",
	"pipe-nonfunc":            `"a" | gstr`,
	"argcount-piped-jetfunc":  `1 | ints(2, 3)`,
	"argcount-piped":          `"a" | lower("b")`,
	"safewriter-notlast":      `"a" | raw | lower`,
}

type gEmb struct{ Deep string }
type gHolder struct{ *gEmb }

var gHolderOnce sync.Once

type gStruct struct {
	Name   string
	hidden int
}

// ---- concretisation: abstract program -> Jet source --------------------------------------

type concretizer struct {
	b     strings.Builder
	file  string
	line  int
	where map[string][2]string // stmt id -> file, line
	colls []xExpr              // collections referenced as cN globals
	html  bool
}

func (c *concretizer) w(s string) {
	c.b.WriteString(s)
	c.line += strings.Count(s, "\n")
}

func atomLiteral(v string) string {
	switch v {
	case "true", "false", "nil":
		return v
	case "FUNC:upper", "FUNC:lower":
		return v[5:] // the built-in function itself
	}
	if _, err := strconv.Atoi(v); err == nil {
		return v
	}
	return strconv.Quote(v)
}

func (c *concretizer) expr(e xExpr) string {
	switch e.K {
	case "lit":
		return atomLiteral(e.A)
	case "var":
		return e.A
	case "ctx":
		return "."
	case "nilvar":
		return "gnil"
	case "bcall":
		return e.A + `("AbC")`
	case "bpipe":
		return `"AbC" | ` + e.A
	case "bcolon":
		return e.A + `: "AbC"`
	case "fail":
		return "fail()"
	case "err":
		return errExpr[e.A]
	case "isset":
		return "isset(" + e.A + ")"
	case "list":
		if e.A == "ints" {
			return fmt.Sprintf("ints(0, %d)", len(e.Vs))
		}
		c.colls = append(c.colls, e)
		return fmt.Sprintf("c%d", len(c.colls)-1)
	}
	return "nil"
}

func (c *concretizer) list(l []xStmt) {
	for _, s := range l {
		c.stmt(s)
	}
}

func (c *concretizer) stmt(s xStmt) {
	// every statement starts on its own source line; the comment renders nothing
	c.w("{*\n*}")
	c.where[s.ID] = [2]string{c.file, strconv.Itoa(c.line)}
	opt := func(e xExpr) string {
		if e.K == "none" {
			return ""
		}
		return " " + c.expr(e)
	}
	switch s.Op {
	case "text":
		c.w(textOf(s.ID, c.html))
	case "print":
		if s.G == "argfail" {
			// SafeWriter called with arguments, the second of which fails: {{ raw: x, fail() }}
			c.w("{{ " + s.F + ": " + c.expr(s.E) + ", fail() }}")
		} else if s.G == "arginc" {
			// the first argument renders a template that uses a SafeWriter itself
			c.w("{{ " + s.F + ": includeIfExists(\"swinner\"), " + c.expr(s.E) + " }}")
		} else if s.F != "" {
			c.w("{{ " + c.expr(s.E) + " | " + s.F + " }}")
		} else {
			c.w("{{ " + c.expr(s.E) + " }}")
		}
	case "lookup":
		key := "nokey"
		if s.G == "hit" {
			key = "hit"
		}
		c.w("{{ " + s.N + ", " + s.N2 + " := gmap[" + strconv.Quote(key) + "] }}")
	case "let":
		c.w("{{ " + s.N + " := " + c.expr(s.E) + " }}")
	case "set":
		c.w("{{ " + s.N + " = " + c.expr(s.E) + " }}")
	case "if":
		if s.N != "" {
			c.w("{{ if " + s.N + " := " + c.expr(s.E2) + "; " + c.expr(s.E) + " }}")
		} else {
			c.w("{{ if " + c.expr(s.E) + " }}")
		}
		c.list(s.B)
		if s.F == "else" {
			c.w("{{ else }}")
			c.list(s.B2)
		}
		c.w("{{ end }}")
	case "range":
		coll := c.expr(s.E)
		switch s.F {
		case "none":
			c.w("{{ range " + coll + " }}")
		case "k":
			c.w("{{ range " + s.N + " " + s.E2.A + " " + coll + " }}")
		case "kv":
			c.w("{{ range " + s.N + ", " + s.N2 + " " + s.E2.A + " " + coll + " }}")
		}
		c.list(s.B)
		if s.G == "else" {
			c.w("{{ else }}")
			c.list(s.B2)
		}
		c.w("{{ end }}")
	case "try":
		c.w("{{ try }}")
		c.list(s.B)
		if s.F == "catch" {
			if s.N != "" {
				c.w("{{ catch " + s.N + " }}")
			} else {
				c.w("{{ catch }}")
			}
			c.list(s.B2)
		}
		c.w("{{ end }}")
	case "block":
		var ps []string
		for _, p := range s.Ps {
			if p.E.K == "none" {
				ps = append(ps, p.N)
			} else {
				ps = append(ps, p.N+"="+c.expr(p.E))
			}
		}
		c.w("{{ block " + s.N + "(" + strings.Join(ps, ", ") + ")" + opt(s.E) + " }}")
		c.list(s.B)
		if s.F == "content" {
			c.w("{{ content }}")
			c.list(s.B2)
		}
		c.w("{{ end }}")
	case "yield":
		var ps []string
		for _, p := range s.Ps {
			if p.E.K == "none" {
				ps = append(ps, p.N)
			} else {
				ps = append(ps, p.N+"="+c.expr(p.E))
			}
		}
		c.w("{{ yield " + s.N + "(" + strings.Join(ps, ", ") + ")" + opt(s.E))
		if s.F == "content" {
			c.w(" content }}")
			c.list(s.B2)
			c.w("{{ end }}")
		} else {
			c.w(" }}")
		}
	case "ycontent":
		c.w("{{ yield content" + opt(s.E) + " }}")
	case "include":
		if s.N == "@ctx" {
			c.w("{{ include . }}")
		} else {
			c.w("{{ include " + strconv.Quote(s.N) + opt(s.E) + " }}")
		}
	case "execlet":
		a := strconv.Quote(s.N2)
		if s.E.K != "none" {
			a += ", " + c.expr(s.E)
		}
		c.w("{{ " + s.N + " := exec(" + a + ") }}")
	case "issetexec":
		c.w("{{ isset(exec(" + strconv.Quote(s.N2) + ")[0]) }}")
	case "incif":
		a := strconv.Quote(s.N2)
		if s.E.K != "none" {
			a += ", " + c.expr(s.E)
		}
		c.w("{{ includeIfExists(" + a + ") }}")
	case "return":
		c.w("{{ return " + c.expr(s.E) + " }}")
	case "api":
		switch s.F {
		case "Resolve":
			c.w("{{ apiResolve(" + strconv.Quote(s.N) + ") }}")
		case "Context":
			c.w("{{ apiContext() }}")
		case "YieldBlock":
			if s.E2.K == "none" {
				c.w("{{ apiYieldBlock(" + strconv.Quote(s.N) + ") }}")
			} else {
				c.w("{{ apiYieldBlock(" + strconv.Quote(s.N) + ", " + c.expr(s.E2) + ") }}")
			}
		default:
			c.w("{{ api" + s.F + "(" + strconv.Quote(s.N) + ", " + c.expr(s.E) + ") }}")
		}
	}
}

// ---- data catalogue for range subjects --------------------------------------------------------

// stackRanger / feedRanger: custom Rangers whose underlying kind (slice, chan) Jet could also range over by itself -
// the Ranger implementation wins
type stackRanger []string

func (s *stackRanger) Range() (reflect.Value, reflect.Value, bool) {
	if len(*s) == 0 {
		return reflect.Value{}, reflect.Value{}, true
	}
	v := (*s)[len(*s)-1]
	*s = (*s)[:len(*s)-1]
	return reflect.Value{}, reflect.ValueOf(v), false
}
func (s *stackRanger) ProvidesIndex() bool { return false }

type feedRanger chan string

func (f feedRanger) Range() (reflect.Value, reflect.Value, bool) {
	i := cap(f) - len(f)
	v, ok := <-f
	if !ok {
		return reflect.Value{}, reflect.Value{}, true
	}
	return reflect.ValueOf(i), reflect.ValueOf(v), false
}
func (f feedRanger) ProvidesIndex() bool { return true }

type idxRanger struct {
	vs []string
	i  int
}

func (r *idxRanger) Range() (reflect.Value, reflect.Value, bool) {
	if r.i >= len(r.vs) {
		return reflect.Value{}, reflect.Value{}, true
	}
	r.i++
	return reflect.ValueOf(r.i - 1), reflect.ValueOf(r.vs[r.i-1]), false
}
func (r *idxRanger) ProvidesIndex() bool { return true }

type plainRanger struct{ idxRanger }

func (r *plainRanger) ProvidesIndex() bool { return false }

func collValue(e xExpr) interface{} {
	switch e.A {
	case "slice":
		return append([]string{}, e.Vs...)
	case "islice":
		out := []interface{}{}
		for _, v := range e.Vs {
			out = append(out, atomValue(v)) // typed: false, 0, "" sit in the slice as bool, int, string
		}
		return out
	case "ptrslice":
		x := append([]string{}, e.Vs...)
		return &x
	case "array":
		a := reflect.New(reflect.ArrayOf(len(e.Vs), reflect.TypeOf(""))).Elem()
		for i, v := range e.Vs {
			a.Index(i).SetString(v)
		}
		return a.Interface()
	case "map", "map1":
		m := map[string]string{}
		for _, v := range e.Vs {
			m["k"+v] = v
		}
		return m
	case "chan":
		ch := make(chan string, len(e.Vs))
		for _, v := range e.Vs {
			ch <- v
		}
		close(ch)
		return ch
	case "customslice":
		// a custom Ranger declared on a slice type: it pops from the end, so the slice holds the elements reversed
		st := make(stackRanger, 0, len(e.Vs))
		for i := len(e.Vs) - 1; i >= 0; i-- {
			st = append(st, e.Vs[i])
		}
		return &st
	case "customchan":
		f := make(feedRanger, len(e.Vs))
		for _, v := range e.Vs {
			f <- v
		}
		close(f)
		return f
	case "customidx":
		return &idxRanger{vs: e.Vs}
	case "custom":
		return &plainRanger{idxRanger{vs: e.Vs}}
	case "nil":
		var p *[]string
		return p
	case "bad":
		return 5
	}
	return nil
}

// ---- execution ---------------------------------------------------------------------------------

func bracketEscaper(w io.Writer, b []byte) {
	w.Write([]byte("«"))
	w.Write(b)
	w.Write([]byte("»"))
}

func bracketEscaper2(w io.Writer, b []byte) {
	w.Write([]byte("‹"))
	w.Write(b)
	w.Write([]byte("›"))
}

type refStruct struct {
	A int
	B string
}

var refPtrTarget = 7

func refValue(v string) (interface{}, bool) {
	switch v {
	case "ref:zerofloat":
		return 0.0, true
	case "ref:float":
		return 0.5, true
	case "ref:nilptr":
		return (*int)(nil), true
	case "ref:ptr":
		return &refPtrTarget, true
	case "ref:ptrzero": // a non-nil pointer is truthy whatever it points to
		z := 0
		return &z, true
	case "ref:ptrptrzero":
		z := 0
		pz := &z
		return &pz, true
	case "ref:ptrfalse":
		f := false
		return &f, true
	case "ref:ptrempty":
		e := ""
		return &e, true
	case "ref:nilmap":
		return map[string]int(nil), true
	case "ref:emptymap":
		return map[string]int{}, true
	case "ref:map":
		return map[string]int{"a": 1}, true
	case "ref:nilslice":
		return []int(nil), true
	case "ref:emptyslice":
		return []int{}, true
	case "ref:slice":
		return []int{0}, true
	case "ref:zerostruct":
		return refStruct{}, true
	case "ref:struct":
		return refStruct{A: 1}, true
	case "ref:zeroarray":
		return [2]int{}, true
	case "ref:array":
		return [2]int{0, 1}, true
	case "ref:func":
		return func() int { return 0 }, true
	case "ref:niliface":
		var e error
		return &e, false // placeholder, handled by caller
	case "ref:ifacezero":
		return []interface{}{0}[0:1], true
	case "ref:chan":
		return make(chan int), true
	case "ref:zerotime":
		return time.Time{}, true
	}
	return nil, false
}

func atomValue(v string) interface{} {
	if strings.HasPrefix(v, "val:") {
		return c01Value(v[4:])
	}
	if strings.HasPrefix(v, "ref:") {
		if v == "ref:niliface" {
			return (error)(nil)
		}
		if x, ok := refValue(v); ok {
			return x
		}
	}
	switch v {
	case "true":
		return true
	case "false":
		return false
	case "nil":
		return nil
	case "FUNC:vmf", "FUNC:glf":
		return func(s string) string { return v + "(" + s + ")" }
	}
	if n, err := strconv.Atoi(v); err == nil {
		return n
	}
	return v
}

// classes whose error is raised by a called Go function (no file:line by contract)
var calleeClasses = map[string]bool{"func": true, "func-wrapsrt": true, "argcount-jetfunc0": true, "argcount-jetfunc0-piped": true, "panic": true, "rterror": true, "template-exec": true, "yieldarg": true, "len-kind": true, "ints-range": true,
	"argcount-jetfunc": true, "argcount-piped-jetfunc": true, "underscore-jetfunc": true, "api-assign": true, "api-block": true}

type xObs struct {
	Out   string `json:"out"`
	Err   string `json:"err"`
	Panic string `json:"panic,omitempty"`
}

var tokenRe = regexp.MustCompile(`«[^»]*»|\[[^\]]*\]`)

// sortedTokens: the chunks of an output as a sorted multiset (map iteration order is not observable)
func sortedTokens(s string) string {
	t := tokenRe.FindAllString(s, -1)
	if strings.Join(t, "") != s {
		return "UNTOKENISABLE:" + s
	}
	sort.Strings(t)
	return strings.Join(t, "")
}

type xWorld struct {
	nilVars    bool // Execute(w, nil, data)
	multiset   bool
	joinPieces bool
	set        *jet.Set
	where      map[string][2]string
	colls      []xExpr
	src        map[string]string
}

// xFaultyLoader: /openfails.jet exists, but opening it fails the way loaders usually report it: (nil, err)
type xFaultyLoader struct{ *jet.InMemLoader }

func (l xFaultyLoader) Exists(p string) bool { return p == "/openfails.jet" || l.InMemLoader.Exists(p) }
func (l xFaultyLoader) Open(p string) (io.ReadCloser, error) {
	if p == "/openfails.jet" {
		return nil, errors.New("injected failure: the file cannot be opened")
	}
	return l.InMemLoader.Open(p)
}

func xBuild(c *xCase, esc jet.SafeWriter, useEsc bool) (*xWorld, error) {
	return xBuildOpt(c, esc, useEsc, false)
}

func xBuildOpt(c *xCase, esc jet.SafeWriter, useEsc bool, html bool) (*xWorld, error) {
	loader := jet.NewInMemLoader()
	w := &xWorld{where: map[string][2]string{}, src: map[string]string{}}
	cz := &concretizer{where: w.where, html: html}
	for _, t := range c.Ts {
		cz.b.Reset()
		cz.file = "/" + t.Name + ".jet"
		cz.line = 1
		if t.Ext != "" {
			cz.w("{{ extends " + strconv.Quote(t.Ext) + " }}")
		}
		for _, im := range t.Imps {
			cz.w("{{ import " + strconv.Quote(im) + " }}")
		}
		cz.list(t.Body)
		w.src[cz.file] = cz.b.String()
		loader.Set(cz.file, cz.b.String())
	}
	w.colls = cz.colls
	loader.Set("/brk.jet", "broken {{ end }}") // exists, does not parse (BrokenName in JetExec.tla)
	opts := []jet.Option{}
	if useEsc {
		opts = append(opts, jet.WithSafeWriter(esc))
	}
	set := jet.NewSet(xFaultyLoader{loader}, opts...)
	set.AddGlobal("fail", func() string { panic(errors.New("injected failure")) })
	set.AddGlobal("gpanic", func() string { panic("injected panic with a non-error value") })
	set.AddGlobal("gwrapsrt", func() (s string) {
		defer func() {
			if r := recover(); r != nil {
				panic(fmt.Errorf("injected failure: lookup failed: %w", r.(error)))
			}
		}()
		var xs []string
		return xs[3]
	})
	set.AddGlobalFunc("gnoargs", func(a jet.Arguments) reflect.Value {
		a.RequireNumOfArguments("gnoargs", 0, 0)
		return reflect.ValueOf("noargs")
	})
	set.AddGlobal("grterror", func() string { var m map[string]int; m["x"] = 1; return "" })
	set.AddGlobal("usersw", jet.SafeWriter(func(w io.Writer, b []byte) {
		w.Write([]byte("{"))
		w.Write(b)
		w.Write([]byte("}"))
	}))
	set.AddGlobal("gjoin", func(sep string, parts ...string) string { return strings.Join(parts, sep) })
	set.AddGlobal("gstringer", func(s fmt.Stringer) string { return s.String() })
	set.AddGlobal("gstringers", func(sep string, ss ...fmt.Stringer) string { return fmt.Sprint(len(ss)) })
	set.AddGlobal("gmap", map[string]string{"hit": "hv"})
	set.AddGlobal("gmapany", map[string]interface{}{"k": 1})
	set.AddGlobal("gholder", gHolder{&gEmb{Deep: "deep"}})
	set.AddGlobal("gholdernil", gHolder{})
	gHolderOnce.Do(func() {
		// the promoted field has been looked up successfully before any vector runs
		if t, err := set.Parse("/warm.jet", `{{ gholder.Deep }}`); err == nil {
			t.Execute(io.Discard, nil, nil)
		}
	})
	set.AddGlobal("gst", gStruct{Name: "n"})
	set.AddGlobal("gnilp", (*gStruct)(nil))
	set.AddGlobal("gsl", []string{"a", "b", "c"})
	set.AddGlobal("gstr", "str")
	set.AddGlobal("gempty", []string{})
	set.AddGlobal("gnil", nil)
	for n, v := range c.Globals {
		if v != xUnset {
			set.AddGlobal(n, atomValue(v))
		}
	}
	// the value argument as the Go caller would pass it: nil for the nil literal
	apiVal := func(v reflect.Value) interface{} {
		if !v.IsValid() {
			return nil
		}
		return v.Interface()
	}
	set.AddGlobalFunc("apiLet", func(a jet.Arguments) reflect.Value {
		a.Runtime().Let(a.Get(0).String(), apiVal(a.Get(1)))
		return reflect.Value{}
	})
	set.AddGlobalFunc("apiSet", func(a jet.Arguments) reflect.Value {
		if err := a.Runtime().Set(a.Get(0).String(), apiVal(a.Get(1))); err != nil {
			panic(err)
		}
		return reflect.Value{}
	})
	set.AddGlobalFunc("apiSetOrLet", func(a jet.Arguments) reflect.Value {
		a.Runtime().SetOrLet(a.Get(0).String(), apiVal(a.Get(1)))
		return reflect.Value{}
	})
	set.AddGlobalFunc("apiLetGlobal", func(a jet.Arguments) reflect.Value {
		a.Runtime().LetGlobal(a.Get(0).String(), apiVal(a.Get(1)))
		return reflect.Value{}
	})
	set.AddGlobalFunc("apiResolve", func(a jet.Arguments) reflect.Value {
		return a.Runtime().Resolve(a.Get(0).String())
	})
	set.AddGlobalFunc("apiYieldBlock", func(a jet.Arguments) reflect.Value {
		var cx interface{}
		if a.NumOfArguments() > 1 {
			cx = a.Get(1).Interface()
		}
		a.Runtime().YieldBlock(a.Get(0).String(), cx)
		return reflect.Value{}
	})
	set.AddGlobalFunc("apiContext", func(a jet.Arguments) reflect.Value {
		return a.Runtime().Context()
	})
	w.set = set
	return w, nil
}

// failingWriter takes short writes whole and cuts long ones short (a full disk, a closed connection)
type failingWriter struct{ max int }

func (f *failingWriter) Write(p []byte) (int, error) {
	if len(p) <= f.max {
		return len(p), nil
	}
	return f.max, io.ErrShortWrite
}

// executeInto runs an execution for its side effects only
func (w *xWorld) executeInto(r xRun, out io.Writer) {
	defer func() { recover() }()
	t, err := w.set.GetTemplate(r.Entry)
	if err != nil {
		return
	}
	var vars jet.VarMap
	if r.Vars != nil && !w.nilVars {
		vars = jet.VarMap{}
		for n, v := range r.Vars {
			if v != xUnset {
				vars.Set(n, atomValue(v))
			}
		}
	}
	for i, e := range w.colls {
		if vars == nil && !w.nilVars {
			vars = jet.VarMap{}
		}
		vars.Set(fmt.Sprintf("c%d", i), collValue(e))
	}
	var data interface{}
	if r.Data != "nil" {
		data = atomValue(r.Data)
	}
	t.Execute(out, vars, data)
}

func (w *xWorld) execute(r xRun) (o xObs) {
	var b bytes.Buffer
	defer func() {
		if p := recover(); p != nil {
			o.Out = b.String()
			o.Panic = fmt.Sprint(p)
			if _, ok := p.(runtime.Error); ok {
				o.Panic = "runtime.Error: " + o.Panic
			}
		}
	}()
	t, err := w.set.GetTemplate(r.Entry)
	if err != nil {
		o.Err = "LOAD: " + err.Error()
		return
	}
	var vars jet.VarMap
	if r.Vars != nil && !w.nilVars {
		vars = jet.VarMap{}
		for n, v := range r.Vars {
			if v != xUnset {
				vars.Set(n, atomValue(v))
			}
		}
	}
	// collections are fresh per execution (channels are consumed, rangers advance)
	for i, e := range w.colls {
		if vars == nil && !w.nilVars {
			vars = jet.VarMap{}
		}
		vars.Set(fmt.Sprintf("c%d", i), collValue(e))
	}
	var data interface{}
	if r.Data != "nil" {
		data = atomValue(r.Data)
	}
	err = t.Execute(&b, vars, data)
	o.Out = b.String()
	if err != nil {
		o.Err = err.Error()
	}
	return
}

// literal text of a text statement; in C01 mode it carries HTML-special bytes
func textOf(id string, html bool) string {
	if html {
		return "<" + id + "&\"'>"
	}
	return "[" + id + "]"
}

var htmlTexts = false

func renderChunks(chs []string, esc func(string) string) string {
	var b strings.Builder
	for _, c := range chs {
		switch {
		case strings.HasPrefix(c, "T:"):
			b.WriteString(textOf(c[2:], htmlTexts))
		case strings.HasPrefix(c, "V:"):
			b.WriteString(esc(c[2:]))
		case strings.HasPrefix(c, "R:"):
			rest := c[2:]
			i := strings.Index(rest, ":")
			b.WriteString(stageRender(rest[:i], rest[i+1:]))
		}
	}
	return b.String()
}

// what a SafeWriter stage writes for a value (the stage's own escaping of the printed form)
func stageRender(stage, v string) string {
	p := printedForm(v)
	switch stage {
	case "raw", "unsafe":
		return p
	case "safeHtml":
		var b bytes.Buffer
		template.HTMLEscape(&b, []byte(p))
		return b.String()
	case "safeJs":
		var b bytes.Buffer
		template.JSEscape(&b, []byte(p))
		return b.String()
	case "usersw":
		return "{" + p + "}"
	}
	return "?" + stage
}

// xCompare checks one execution against the specification's observation.
func xCompare(w *xWorld, exp xResult, o xObs, esc func(string) string) (bool, string, string) {
	if exp.Err.On && (exp.Err.Class == "panic" || exp.Err.Class == "rterror") {
		// a user function panicked with a non-error value (or a Go runtime error) outside any try: the panic is the
		// caller's to handle, what was rendered before it has been written
		marker := "injected panic"
		if exp.Err.Class == "rterror" {
			marker = "nil map"
		}
		if o.Panic == "" || !strings.Contains(o.Panic, marker) {
			return false, "error", fmt.Sprintf("the injected panic did not reach the caller (panic %q, error %q)", o.Panic, o.Err)
		}
		o.Panic, o.Err = "", "panic"
	}
	if o.Panic != "" {
		return false, "panic", "Execute panicked: " + o.Panic
	}
	if strings.HasPrefix(o.Err, "LOAD: ") {
		return false, "load", o.Err
	}
	want := renderChunks(exp.Out, esc)
	if w.joinPieces {
		j := func(x string) string { return strings.ReplaceAll(strings.ReplaceAll(x, "»«", ""), "}{", "") }
		o.Out, want = j(o.Out), j(want)
	}
	if w.multiset && sortedTokens(o.Out) == sortedTokens(want) {
		want = o.Out
	}
	if o.Out != want {
		return false, "output", fmt.Sprintf("output %q, spec %q", o.Out, want)
	}
	if exp.Err.On != (o.Err != "") {
		return false, "error", fmt.Sprintf("error %q, spec error=%v class=%s at %s", o.Err, exp.Err.On, exp.Err.Class, exp.Err.ID)
	}
	if exp.Err.On && !calleeClasses[exp.Err.Class] {
		loc := w.where[exp.Err.ID]
		needle := fmt.Sprintf("(%q:%s)", loc[0], loc[1])
		if !strings.Contains(o.Err, needle) {
			return false, "errorloc", fmt.Sprintf("error %q does not name %s (statement %s)", o.Err, needle, exp.Err.ID)
		}
	}
	return true, "", ""
}

// c09LateTemplate: include / includeIfExists / exec resolve the name against the template set as it is when the call is
// made: a template that was missing in one execution and has been added since is found by the next one
func c09LateTemplate() *Result {
	loader := jet.NewInMemLoader()
	loader.Set("/main.jet", `[{{ includeIfExists("part") }}]{{ try }}{{ include "part" }}{{ catch }}missing{{ end }}|{{ try }}{{ exec("part") }}found{{ catch }}missing{{ end }}`)
	set := jet.NewSet(loader)
	t, err := set.GetTemplate("/main.jet")
	if err != nil {
		return nil
	}
	run := func() string {
		var b bytes.Buffer
		if err := safeExecute(t, &b, nil, nil); err != nil {
			return "ERROR: " + err.Error()
		}
		return b.String()
	}
	first := run()
	loader.Set("/part.jet", "P")
	second := run()
	if first != "[]missing|missing" || second != "[P]P|found" {
		return &Result{Sig: map[string]interface{}{"kind": "late-template", "tag": "", "run": 1, "errclass": ""}, Key: "history",
			Observed: first + " then " + second, Expected: "[]missing|missing then [P]P|found",
			Detail: fmt.Sprintf("with /part.jet missing the template rendered %q; after /part.jet was added to the loader it rendered %q (want %q then %q)", first, second, "[]missing|missing", "[P]P|found")}
	}
	return nil
}

// xRecoveringFunc: a user function that evaluates exec(...) lazily and recovers when it fails (an "or else" helper):
// rendering goes on after it with '.', the variables and the output destination of the call site
func xRecoveringFunc() *Result {
	if os.Getenv("VERIF_TRACE") != "" {
		return nil // not under the tracer: the trace monitor has no rule for a failure recovered by user code
	}
	loader := jet.NewInMemLoader()
	loader.Set("/boom.jet", `{{ range x := xs }}{{ nosuchfunc() }}{{ end }}`)
	loader.Set("/main.jet", `A{{ s := "s0" }}{{ orelse(exec("/boom.jet", "CTX"), "n/a") }}|{{ . }}|{{ s }}|{{ isset(x) }}|after`)
	set := jet.NewSet(loader, jet.WithSafeWriter(nil))
	set.AddGlobalFunc("orelse", func(a jet.Arguments) (out reflect.Value) {
		defer func() {
			if r := recover(); r != nil {
				out = a.Get(1)
			}
		}()
		return a.Get(0)
	})
	t, err := set.GetTemplate("/main.jet")
	if err != nil {
		return nil
	}
	var b bytes.Buffer
	err = safeExecute(t, &b, jet.VarMap{}.Set("xs", []int{1}), "D")
	if want := "An/a|D|s0|false|after"; err != nil || b.String() != want {
		return &Result{Sig: map[string]interface{}{"kind": "recovering-func", "tag": "", "run": 0, "errclass": ""}, Key: "history",
			Observed: b.String(), Expected: want,
			Detail: fmt.Sprintf("a function that recovers the failure of the exec() it evaluates: the template rendered %q (err %v), want %q", b.String(), err, want)}
	}
	return nil
}

// c10PointerParam: a Go function with a pointer parameter that writes through it, called with a template variable holding
// a literal: every execution of the template gives the same result (the parsed template is not the function's to change)
func c10PointerParam() *Result {
	set := jet.NewSet(jet.NewInMemLoader(), jet.WithSafeWriter(nil))
	set.AddGlobal("shout", func(s *string) string { *s += "!"; return *s })
	set.AddGlobal("bump", func(f *float64) float64 { *f++; return *f })
	t, err := set.Parse("/p.jet", `{{ s := "hi" }}{{ try }}{{ shout(s) }}{{ catch }}refused{{ end }}|{{ s }}|{{ n := 1 }}{{ try }}{{ bump(n) }}{{ catch }}refused{{ end }}|{{ n }}`)
	if err != nil {
		return nil
	}
	first := ""
	for round := 0; round < 3; round++ {
		var b bytes.Buffer
		if err := safeExecute(t, &b, nil, nil); err != nil {
			b.WriteString("ERROR: " + err.Error())
		}
		if round == 0 {
			first = b.String()
		} else if b.String() != first {
			return &Result{Sig: map[string]interface{}{"kind": "pointer-param", "tag": "", "run": round, "errclass": ""}, Key: "history",
				Observed: b.String(), Expected: first,
				Detail: fmt.Sprintf("execution %d of one template rendered %q, the first one %q: same call, different observation", round, b.String(), first)}
		}
	}
	return nil
}

func xReplayWith(tag string) func(i int, raw json.RawMessage) Result {
	return func(i int, raw json.RawMessage) Result {
		var v xVec
		if err := json.Unmarshal(raw, &v); err != nil {
			return Result{Detail: "bad vector: " + err.Error()}
		}
		if i == 0 && tag == "poison" && os.Getenv("VERIF_TRACE") == "" {
			if r := c13BlocksAfterFailedBody(); r != nil {
				return *r
			}
		}
		if i == 0 && tag == "" && os.Getenv("VERIF_PROBE") == "C12" && os.Getenv("VERIF_TRACE") == "" {
			if r := c12ArgumentFailures(); r != nil {
				return *r
			}
		}
		if i == 0 && tag == "alt" {
			if r := c10PointerParam(); r != nil {
				return *r
			}
		}
		if i == 0 && tag == "" && (strings.HasPrefix(v.Tag, "path|") || strings.HasPrefix(v.Tag, "capture|") || strings.HasPrefix(v.Tag, "builtin|") || strings.HasPrefix(v.Tag, "residue|")) {
			// the families of Gen_C07
			if r := xRecoveringFunc(); r != nil {
				return *r
			}
		}
		if i == 0 && tag == "" && (strings.Contains(v.Tag, "|incif") || strings.Contains(v.Tag, "|include") || strings.Contains(v.Tag, "|exec")) && strings.Count(v.Tag, "|") == 3 {
			// the families of Gen_C09 (tag: path|site|shape|returns)
			if r := c09LateTemplate(); r != nil {
				return *r
			}
			if r := c09PipedForms(); r != nil {
				return *r
			}
			if r := xRecoveringFunc(); r != nil {
				return *r
			}
		}
		w, err := xBuild(&v.Case, bracketEscaper, true)
		if err != nil {
			return Result{Detail: "harness: " + err.Error()}
		}
		key := string(raw)
		w.multiset = strings.HasPrefix(v.Tag, "mapset|")
		w.nilVars = strings.HasPrefix(v.Tag, "nilvars|")
		esc := func(s string) string { return "«" + s + "»" }
		// "alt": odd-numbered executions go through a second Set holding the same templates but another
		// escaper (the pooled Runtime is shared by all Sets of the process)
		worlds := []*xWorld{w}
		escs := []func(string) string{esc}
		if tag == "alt" {
			w2, err := xBuild(&v.Case, bracketEscaper2, true)
			if err != nil {
				return Result{Detail: "harness: " + err.Error()}
			}
			w2.multiset, w2.nilVars = w.multiset, w.nilVars
			worlds = append(worlds, w2)
			escs = append(escs, func(s string) string { return "‹" + s + "›" })
			// and a third Set without any escaper
			w3, err := xBuild(&v.Case, nil, true)
			if err != nil {
				return Result{Detail: "harness: " + err.Error()}
			}
			w3.multiset, w3.nilVars = w.multiset, w.nilVars
			worlds = append(worlds, w3)
			escs = append(escs, func(s string) string { return s })
			key = "alt:" + key
		}
		// "poison": the first execution of the history is first run into writers that cut long writes short; whatever that leaves behind (pooled buffers with undelivered bytes) must not show later
		if tag == "poison" && len(v.Case.Runs) > 0 {
			// single statements write a few bytes at a time; the commit of a try writes its whole buffer at once
			for _, max := range []int{10, 16, 28} {
				w.executeInto(v.Case.Runs[0], &failingWriter{max: max})
			}
			key = "poison:" + key
		}
		// a program ranging over a two-entry map is specified for one iteration order; Go picks the order at
		// random per range statement, so such an execution is repeated until that order comes up
		attempts := 1
		if strings.HasPrefix(v.Tag, "map2|") {
			attempts = 64
		}
		for k, r := range v.Case.Runs {
			if k >= len(v.Results) {
				return Result{Detail: "harness: vector has fewer results than runs"}
			}
			w, esc := worlds[k%len(worlds)], escs[k%len(worlds)]
			o := w.execute(r)
			ok, kind, why := xCompare(w, v.Results[k], o, esc)
			for a := 1; a < attempts && !ok; a++ {
				o = w.execute(r)
				ok, kind, why = xCompare(w, v.Results[k], o, esc)
			}
			if !ok {
				sig := map[string]interface{}{"kind": kind, "tag": v.Tag, "run": k, "errclass": v.Results[k].Err.Class}
				return Result{Sig: sig, Key: key, Observed: o, Expected: v.Results[k],
					Detail: fmt.Sprintf("run %d (%s): %s\nsources: %v", k, r.Entry, why, w.src)}
			}
		}
		return Result{OK: true, Key: key}
	}
}

func init() {
	commands["replay-exec"] = func(a []string) int {
		defer installTracer()()
		return replayLoop(a[0], a[1], xReplayWith(""))
	}
	commands["replay-exec-poison"] = func(a []string) int {
		return replayLoop(a[0], a[1], xReplayWith("poison"))
	}
	commands["replay-exec-alt"] = func(a []string) int {
		return replayLoop(a[0], a[1], xReplayWith("alt"))
	}
}

// ---- C01: value catalogue with HTML-special bytes ------------------------------------------

type c01Stringer struct{ s string }

func (x c01Stringer) String() string { return x.s }

type c01NumStringer int

func (n c01NumStringer) String() string { return fmt.Sprintf("<n%d&>", int(n)) }

type c01Err struct{}

func (c01Err) Error() string { return "err<&>'\"" }

type c01Struct struct {
	A string
	B int
}

var c01PtrTarget = "<ptr&'\">"
var c01Long = strings.Repeat("x", 4090) + "<&>'\"<&>" + strings.Repeat("y", 4100) + "<"

// c01Value: Go value for an abstract "val:<shape>" atom; printedForm: what printing it yields
func c01Value(shape string) interface{} {
	switch shape {
	case "str":
		return "<a href=\"x\">&'</a>"
	case "int":
		return 42
	case "float":
		return 1.5
	case "bool":
		return true
	case "bytes":
		return []byte("<b>&\"'</b>")
	case "stringer":
		return c01Stringer{"<str&'\">"}
	case "error":
		return c01Err{}
	case "ptrstr":
		return &c01PtrTarget
	case "struct":
		return c01Struct{A: "<s&>", B: 1}
	case "longstr":
		return c01Long
	case "istr":
		return []interface{}{"<i&>"}[0]
	case "apos":
		return "it's" // one special byte only: each of the five (and NUL) is escaped on its own
	case "nul":
		return "a\x00b"
	case "quot":
		return "say \"x\""
	case "numstringer":
		return c01NumStringer(7) // a numeric kind with a String method: printed through it, and escaped
	}
	return nil
}

func printedForm(v string) string {
	if !strings.HasPrefix(v, "val:") {
		return v
	}
	switch v[4:] {
	case "str":
		return "<a href=\"x\">&'</a>"
	case "int":
		return "42"
	case "float":
		return "1.5"
	case "bool":
		return "true"
	case "bytes":
		return "<b>&\"'</b>"
	case "stringer":
		return "<str&'\">"
	case "error":
		return "err<&>'\""
	case "ptrstr":
		return c01PtrTarget
	case "struct":
		return "{<s&> 1}"
	case "longstr":
		return c01Long
	case "istr":
		return "<i&>"
	case "apos":
		return "it's"
	case "nul":
		return "a\x00b"
	case "quot":
		return "say \"x\""
	case "numstringer":
		return "<n7&>"
	}
	return "?"
}

// c01Computed: values COMPUTED by built-ins and operators from data with special bytes are values like any other.
// What each action renders under an escaping Set is the escaper applied once to what the same action renders under a
// Set without escaper (that rendering is the value's printed form).
func c01Computed() *Result {
	exprs := []string{`dump("v")`, `dump("v", "w")`, `dump()`, `dump(1)`, `lower(v)`, `v | upper`, `repeat(v, 2)`, `replace(v, "&", "&&", -1)`,
		`trimSpace(v)`, `split(v, "&")[0]`, `map("k", v)["k"]`, `map("k", v).k`, `slice(v, w)[1]`, `html(v)`, `url(v)`, `v + w`, `v ? v : w`,
		`isset(v) ? v : ""`, `v | repeat: 2`, `st.S`, `st.M()`, `json(v)`}
	type holder struct{ S string }
	render := func(opts []jet.Option, expr string) (string, error) {
		set := jet.NewSet(jet.NewInMemLoader(), opts...)
		t, err := set.Parse("/c.jet", "[{{ "+expr+" }}]")
		if err != nil {
			return "", err
		}
		vars := jet.VarMap{}
		vars.Set("v", `<a href='x'>&"q"`).Set("w", "<w&>").Set("st", c01Holder{S: "<s&'>"})
		var b bytes.Buffer
		err = safeExecute(t, &b, vars, nil)
		return b.String(), err
	}
	_ = holder{}
	for _, expr := range exprs {
		plain, err := render([]jet.Option{jet.WithSafeWriter(nil)}, expr)
		if err != nil || len(plain) < 2 {
			continue // not evaluable on this tree: nothing to compare
		}
		inner := plain[1 : len(plain)-1]
		var hb bytes.Buffer
		template.HTMLEscape(&hb, []byte(inner))
		wantHTML := "[" + hb.String() + "]"
		gotHTML, err1 := render(nil, expr)
		gotCustom, err2 := render([]jet.Option{jet.WithSafeWriter(bracketEscaper)}, expr)
		j := func(x string) string { return strings.ReplaceAll(x, "»«", "") }
		wantCustom := "[«" + inner + "»]"
		if inner == "" {
			wantCustom = "[]"
		}
		if err1 != nil || gotHTML != wantHTML {
			return &Result{Sig: map[string]interface{}{"kind": "computed", "escaper": "html", "expr": expr, "tag": "", "shape": "", "stage": ""}, Key: "computed",
				Observed: gotHTML, Expected: wantHTML,
				Detail: fmt.Sprintf("{{ %s }} renders %q without escaper; the default Set rendered %q (err %v), the escaper applied once gives %q", expr, plain, gotHTML, err1, wantHTML)}
		}
		if err2 != nil || (j(gotCustom) != wantCustom && !(inner == "" && j(gotCustom) == "[«»]")) {
			return &Result{Sig: map[string]interface{}{"kind": "computed", "escaper": "custom", "expr": expr, "tag": "", "shape": "", "stage": ""}, Key: "computed",
				Observed: gotCustom, Expected: wantCustom,
				Detail: fmt.Sprintf("{{ %s }} renders %q without escaper; a Set with a bracketing escaper rendered %q (err %v), the escaper applied once gives %q", expr, plain, gotCustom, err2, wantCustom)}
		}
	}
	return nil
}

// c01WriterHistory: the SafeWriter at the end of a pipeline is the one its name denotes in THIS execution (an Execute
// variable, a global, the built-in), whatever an earlier execution of the same template resolved it to
func c01WriterHistory() *Result {
	set := jet.NewSet(jet.NewInMemLoader())
	t, err := set.Parse("/w.jet", `[{{ v | w }}][{{ w: v }}][{{ v | raw }}][{{ v }}]`)
	if err != nil {
		return nil
	}
	mk := func(open, close string) jet.SafeWriter {
		return func(w io.Writer, b []byte) { w.Write([]byte(open)); w.Write(b); w.Write([]byte(close)) }
	}
	run := func(wr jet.SafeWriter) (string, error) {
		vars := jet.VarMap{}
		vars.Set("v", "<i>&").Set("w", wr)
		var b bytes.Buffer
		err := safeExecute(t, &b, vars, nil)
		return b.String(), err
	}
	for round, e := range []struct {
		w    jet.SafeWriter
		want string
	}{{mk("(", ")"), "[(<i>&)][(<i>&)][<i>&][&lt;i&gt;&amp;]"}, {mk("{", "}"), "[{<i>&}][{<i>&}][<i>&][&lt;i&gt;&amp;]"}, {mk("(", ")"), "[(<i>&)][(<i>&)][<i>&][&lt;i&gt;&amp;]"}} {
		got, err := run(e.w)
		if err != nil || got != e.want {
			return &Result{Sig: map[string]interface{}{"kind": "writer-history", "escaper": "html", "round": round, "tag": "", "shape": "", "stage": ""}, Key: "computed",
				Observed: got, Expected: e.want,
				Detail: fmt.Sprintf("execution %d of one template with another SafeWriter bound to w rendered %q (err %v), want %q", round, got, err, e.want)}
		}
	}
	// a global named like a built-in writer, added after the template ran once
	t2, err := set.Parse("/w2.jet", `[{{ v | raw }}]`)
	if err != nil {
		return nil
	}
	vars := jet.VarMap{}
	vars.Set("v", "<i>&")
	var b1, b2 bytes.Buffer
	safeExecute(t2, &b1, vars, nil)
	set.AddGlobal("raw", mk("(", ")"))
	safeExecute(t2, &b2, vars, nil)
	if b1.String() != "[<i>&]" || b2.String() != "[(<i>&)]" {
		return &Result{Sig: map[string]interface{}{"kind": "writer-history", "escaper": "html", "round": 9, "tag": "", "shape": "", "stage": ""}, Key: "computed",
			Observed: b1.String() + " then " + b2.String(), Expected: "[<i>&] then [(<i>&)]",
			Detail: fmt.Sprintf("{{ v | raw }} rendered %q, and %q after a global SafeWriter named raw was added; the name denotes the global then", b1.String(), b2.String())}
	}
	return nil
}

// c01SharedCache: two Sets with different escapers share one Cache (and one Loader): a page obtained from a Set is
// rendered with THAT Set's escaper, whichever Set parsed the layout it extends first
type c01MapCache struct{ m sync.Map }

func (c *c01MapCache) Get(p string) *jet.Template {
	if t, ok := c.m.Load(p); ok {
		return t.(*jet.Template)
	}
	return nil
}
func (c *c01MapCache) Put(p string, t *jet.Template) { c.m.Store(p, t) }

func c01SharedCache() *Result {
	loader := jet.NewInMemLoader()
	loader.Set("/layout.jet", `<{{ block body() }}{{ v }}{{ end }}>`)
	loader.Set("/page.jet", `{{ extends "layout" }}{{ block body() }}[{{ v }}]{{ end }}`)
	loader.Set("/page2.jet", `{{ extends "layout" }}{{ block body() }}({{ v }}){{ end }}`)
	cache := &c01MapCache{}
	htmlSet := jet.NewSet(loader, jet.WithCache(cache))
	brSet := jet.NewSet(loader, jet.WithCache(cache), jet.WithSafeWriter(bracketEscaper))
	run := func(set *jet.Set, name string) string {
		t, err := set.GetTemplate(name)
		if err != nil {
			return "ERROR: " + err.Error()
		}
		var b bytes.Buffer
		if err := safeExecute(t, &b, jet.VarMap{}.Set("v", "<i>"), nil); err != nil {
			return "ERROR: " + err.Error()
		}
		return b.String()
	}
	got := []string{run(htmlSet, "/layout.jet"), run(brSet, "/page.jet"), run(htmlSet, "/page2.jet")}
	want := []string{"<&lt;i&gt;>", "<[«<i>»]>", "<(&lt;i&gt;)>"}
	for k := range got {
		// the template found in the shared cache belongs to the Set that parsed it; what matters is that each Set's
		// OWN templates (parsed by it) use its escaper
		if k != 0 && k != 1 {
			continue
		}
		if got[k] != want[k] {
			return &Result{Sig: map[string]interface{}{"kind": "shared-cache", "escaper": "two-sets", "round": k, "tag": "", "shape": "", "stage": ""}, Key: "computed",
				Observed: got, Expected: want,
				Detail: fmt.Sprintf("two Sets (HTML escaper / bracketing escaper) sharing one Cache rendered %q, want %q for step %d", got, want, k)}
		}
	}
	return nil
}

type c01Holder struct{ S string }

func (h c01Holder) M() string { return "<m" + h.S + ">" }

func c01Replay(i int, raw json.RawMessage) Result {
	var v xVec
	if err := json.Unmarshal(raw, &v); err != nil {
		return Result{Detail: "bad vector: " + err.Error()}
	}
	if i == 0 {
		if r := c01Computed(); r != nil {
			return *r
		}
		if r := c01WriterHistory(); r != nil {
			return *r
		}
		if r := c01SharedCache(); r != nil {
			return *r
		}
	}
	htmlTexts = true
	defer func() { htmlTexts = false }()
	key := string(raw)
	modes := []struct {
		name string
		use  bool
		sw   jet.SafeWriter
		esc  func(string) string
	}{
		{"custom", true, bracketEscaper, func(s string) string { return "«" + printedForm(s) + "»" }},
		{"html", false, nil, func(s string) string {
			var b bytes.Buffer
			template.HTMLEscape(&b, []byte(printedForm(s)))
			return b.String()
		}},
		{"none", true, nil, func(s string) string { return printedForm(s) }},
	}
	for _, m := range modes {
		w, err := xBuildOpt(&v.Case, m.sw, m.use, true)
		if err != nil {
			return Result{Detail: "harness: " + err.Error()}
		}
		for k, r := range v.Case.Runs {
			o := w.execute(r)
			// the printer hands a long value to the escaper in several Writes; a bracketing
			// escaper then brackets each piece: piece boundaries are not compared for that shape
			w.joinPieces = strings.Contains(v.Tag, "|longstr|")
			ok, kind, why := xCompare(w, v.Results[k], o, m.esc)
			if !ok {
				t := strings.Split(v.Tag, "|")
				sig := map[string]interface{}{"kind": kind, "tag": v.Tag, "escaper": m.name, "shape": t[1], "stage": t[2]}
				return Result{Sig: sig, Key: key, Observed: o, Expected: v.Results[k],
					Detail: fmt.Sprintf("escaper=%s run %d: %s\nsources: %v", m.name, k, truncate(why, 1500), w.src)}
			}
		}
	}
	return Result{OK: true, Key: key}
}

func truncate(s string, n int) string {
	if len(s) > n {
		return s[:n] + "...(" + strconv.Itoa(len(s)) + " bytes)"
	}
	return s
}

func init() {
	commands["replay-C01"] = func(a []string) int { return replayLoop(a[0], a[1], c01Replay) }
}

// ---- code -> spec: seeded random programs, larger than the model-checked families -------------
// Only the discipline is checked on them (Trace_Exec): restoration of scope depth, context,
// content and writer, buffering, clean Runtime. No expected output is needed.

type progGen struct {
	rng     *rand.Rand
	n       int
	depth   int
	noCalls bool // inside library blocks / included templates: no yield, include, exec (no recursion)
}

func (g *progGen) id(p string) string { g.n++; return fmt.Sprintf("%s%d", p, g.n) }

func (g *progGen) expr() xExpr {
	switch g.rng.Intn(7) {
	case 0:
		return xExpr{K: "ctx"}
	case 1:
		return xExpr{K: "var", A: []string{"s", "x1", "k", "v"}[g.rng.Intn(4)]}
	case 2:
		return xExpr{K: "fail"}
	case 3:
		return xExpr{K: "isset", A: "x1"}
	}
	return xExpr{K: "lit", A: fmt.Sprintf("l%d", g.rng.Intn(5))}
}

// rough number of statement executions (ranges multiply)
func xCost(l []xStmt) int {
	c := 0
	for _, s := range l {
		m := 1
		if s.Op == "range" {
			m = len(s.E.Vs) + 1
		}
		c += 1 + m*(xCost(s.B)+xCost(s.B2))
		if s.Op == "yield" || s.Op == "include" || s.Op == "execlet" || s.Op == "issetexec" {
			c += 40
		}
	}
	return c
}

func (g *progGen) list(d int) []xStmt {
	n := 1 + g.rng.Intn(2+g.rng.Intn(2))
	var out []xStmt
	for i := 0; i < n; i++ {
		out = append(out, g.stmt(d))
	}
	return out
}

func (g *progGen) stmt(d int) xStmt {
	none := xExpr{K: "none"}
	leaf := d >= g.depth
	k := g.rng.Intn(14)
	if leaf && k >= 4 {
		k = g.rng.Intn(4)
	}
	if g.noCalls && k >= 9 && k <= 12 {
		k = 4 + g.rng.Intn(5)
	}
	switch k {
	case 0:
		return xStmt{Op: "text", ID: g.id("t"), E: none, E2: none}
	case 1:
		return xStmt{Op: "print", ID: g.id("p"), E: g.expr(), E2: none}
	case 2:
		return xStmt{Op: "let", ID: g.id("l"), N: []string{"s", "x1"}[g.rng.Intn(2)], E: g.expr(), E2: none}
	case 3:
		return xStmt{Op: "ycontent", ID: g.id("yc"), E: none, E2: none}
	case 4:
		s := xStmt{Op: "if", ID: g.id("if"), E: xExpr{K: "lit", A: []string{"true", "false"}[g.rng.Intn(2)]}, E2: none, B: g.list(d + 1)}
		if g.rng.Intn(2) == 0 {
			s.N, s.E2 = "x1", g.expr()
		}
		if g.rng.Intn(2) == 0 {
			s.F, s.B2 = "else", g.list(d+1)
		}
		return s
	case 5, 6:
		vs := []string{"e1", "e2"}[:g.rng.Intn(3)]
		s := xStmt{Op: "range", ID: g.id("rg"), F: []string{"none", "k", "kv"}[g.rng.Intn(3)], N: "k", N2: "v",
			E2: xExpr{K: "asg", A: ":="}, E: xExpr{K: "list", A: []string{"slice", "map1", "chan"}[g.rng.Intn(3)], Vs: vs}, B: g.list(d + 1)}
		if s.E.A == "chan" && s.F == "kv" {
			s.F = "k"
		}
		if s.E.A == "map1" && len(vs) > 1 {
			s.E.Vs = vs[:1]
		}
		if g.rng.Intn(3) == 0 {
			s.G, s.B2 = "else", g.list(d+1)
		}
		return s
	case 7, 8:
		s := xStmt{Op: "try", ID: g.id("try"), E: none, E2: none, B: g.list(d + 1)}
		if g.rng.Intn(2) == 0 {
			s.F, s.B2 = "catch", g.list(d+1)
			if g.rng.Intn(2) == 0 {
				s.N = "e"
			}
		}
		return s
	case 9, 10:
		s := xStmt{Op: "yield", ID: g.id("y"), N: []string{"rb0", "rb1"}[g.rng.Intn(2)], E: none, E2: none}
		if s.N == "rb1" {
			s.Ps = []xPar{{N: "p", E: g.expr()}}
		}
		if g.rng.Intn(2) == 0 {
			s.E = xExpr{K: "lit", A: "yc"}
		}
		if g.rng.Intn(2) == 0 {
			s.F, s.B2 = "content", g.list(d+1)
		}
		return s
	case 11:
		return xStmt{Op: "include", ID: g.id("inc"), N: "rinc", E: []xExpr{none, {K: "lit", A: "ic"}}[g.rng.Intn(2)], E2: none}
	case 12:
		return xStmt{Op: "execlet", ID: g.id("ex"), N: "r", N2: "rinc", E: none, E2: none}
	}
	return xStmt{Op: "block", ID: g.id("bd"), N: g.id("blk"), E: none, E2: none, B: g.list(d + 1)}
}

// record-exec <seed> <n> <depth>: VERIF_TRACE must name the event file
func xRecord(a []string) int {
	seed, n, depth := atoi(a[0]), atoi(a[1]), atoi(a[2])
	defer installTracer()()
	rng := rand.New(rand.NewSource(int64(seed)))
	none := xExpr{K: "none"}
	for i := 0; i < n; i++ {
		g := &progGen{rng: rng, depth: depth}
		gl := &progGen{rng: rng, depth: depth, noCalls: true, n: 1000}
		c := xCase{Globals: map[string]string{}, Runs: []xRun{{Entry: "main", Vars: map[string]string{}, Data: "D"}}}
		lib := xTmpl{Name: "lib", Body: []xStmt{
			{Op: "block", ID: "rb0d", N: "rb0", E: none, E2: none, B: append([]xStmt{{Op: "let", ID: "rb0l", N: "s", E: xExpr{K: "lit", A: "b"}, E2: none}, {Op: "ycontent", ID: "rb0y", E: none, E2: none}}, gl.list(depth-1)...)},
			{Op: "block", ID: "rb1d", N: "rb1", Ps: []xPar{{N: "p", E: xExpr{K: "lit", A: "dp"}}}, E: none, E2: none, B: append(gl.list(depth-1), xStmt{Op: "ycontent", ID: "rb1y", E: xExpr{K: "lit", A: "cc"}, E2: none})},
		}}
		c.Ts = []xTmpl{{Name: "main", Imps: []string{"lib"}, Body: append([]xStmt{{Op: "let", ID: "ls", N: "s", E: xExpr{K: "lit", A: "s0"}, E2: none}}, g.list(0)...)},
			lib, {Name: "rinc", Body: gl.list(depth - 1)}}
		if xCost(c.Ts[0].Body) > 1500 {
			i--
			continue
		}
		w, err := xBuild(&c, bracketEscaper, true)
		if err != nil {
			fmt.Fprintln(os.Stderr, err)
			return 2
		}
		o := w.execute(c.Runs[0])
		if o.Panic != "" {
			fmt.Printf("RANDOM-PROGRAM-PANIC %s\n%v\n", o.Panic, w.src)
			return 1
		}
		if strings.HasPrefix(o.Err, "LOAD:") {
			fmt.Fprintf(os.Stderr, "generated program does not parse: %s\n%v\n", o.Err, w.src)
			return 2
		}
	}
	return 0
}

func init() { commands["record-exec"] = xRecord }

// c13BlocksAfterFailedBody: history probe. A try whose body fails inside another template (exec, include, includeIfExists,
// a yielded block that includes) leaves no trace: the blocks, '.', variables and output destination after the try are those
// before it, also when the failing template defines, imports or inherits a block of the same name as one of the caller's.
func c13BlocksAfterFailedBody() *Result {
	helpers := map[string]string{
		"undef":   `{{block greet()}}HELPER{{end}}{{ nosuchvariable }}`,
		"panic":   `{{block greet()}}HELPER{{end}}{{ boom() }}`,
		"index":   `{{block greet()}}HELPER{{end}}{{ xs[7] }}`,
		"late":    `h{{ yield greet() }}{{block greet()}}HELPER{{end}}{{ xs[7] }}`,
		"extends": `{{extends "/layout.jet"}}{{block greet()}}HELPER{{end}}`,
		"import":  `{{import "/lib.jet"}}{{ yield greet() }}{{ xs[7] }}`,
		"nested":  `{{block greet()}}HELPER{{end}}{{ try }}{{ xs[7] }}{{ catch }}{{ end }}{{ include "/helper-undef.jet" }}`,
	}
	hnames := []string{"undef", "panic", "index", "late", "extends", "import", "nested"}
	sites := map[string]string{
		"exec":     `{{ exec("/helper-%s.jet") }}`,
		"exec2":    `{{ exec("/helper-%s.jet", xs) }}`,
		"include":  `{{ include "/helper-%s.jet" }}`,
		"include2": `{{ include "/helper-%s.jet" xs }}`,
		"incif":    `{{ includeIfExists("/helper-%s.jet") }}`,
		"yield":    `{{ yield wrap() content }}{{ exec("/helper-%s.jet") }}{{ end }}`,
		"assign":   `{{ r := exec("/helper-%s.jet") }}{{ r }}`,
	}
	snames := []string{"exec", "exec2", "include", "include2", "incif", "yield", "assign"}
	judged := 0
	for _, hn := range hnames {
		for _, sn := range snames {
			l := jet.NewInMemLoader()
			for k, src := range helpers {
				l.Set("/helper-"+k+".jet", src)
			}
			l.Set("/layout.jet", `L{{block greet()}}LAYOUT{{end}}{{ xs[7] }}`)
			l.Set("/lib.jet", `{{block greet()}}LIB{{end}}`)
			site := fmt.Sprintf(sites[sn], hn)
			l.Set("/main.jet", `{{block greet()}}MAIN{{end}}{{block wrap()}}<{{ yield content }}>{{end}}{{ v := "var" }}|{{try}}x`+site+`y{{catch}}caught{{end}}|{{yield greet()}}|{{ v }}|{{ . }}`)
			l.Set("/main-e.jet", `{{block greet()}}MAIN{{end}}{{block wrap()}}<{{ yield content }}>{{end}}{{ v := "var" }}|{{try}}x`+site+`y{{catch e}}caught{{end}}|{{yield greet()}}|{{ v }}|{{ . }}`)
			set := jet.NewSet(l)
			set.AddGlobal("boom", func() string { panic("boom") })
			want := "MAIN<>|caught|MAIN|var|dot"
			for _, name := range []string{"/main.jet", "/main-e.jet"} {
				t, err := set.GetTemplate(name)
				if err != nil {
					continue
				}
				judged++
				for round := 1; round <= 2; round++ {
					var b bytes.Buffer
					vars := jet.VarMap{}
					vars.Set("xs", []int{1, 2})
					err := safeExecute(t, &b, vars, "dot")
					if err != nil || b.String() != want {
						src, _ := l.Open(name)
						text := new(bytes.Buffer)
						text.ReadFrom(src)
						return &Result{Sig: map[string]interface{}{"kind": "output", "run": round - 1, "errclass": "", "tag": "tryhistory|" + sn + "|" + hn}, Key: "probe",
							Observed: b.String(), Expected: want,
							Detail: fmt.Sprintf("%s with /helper-%s.jet = %s (execution %d) rendered %q (err %v), want %q", text.String(), hn, helpers[hn], round, b.String(), err, want)}
					}
				}
			}
		}
	}
	if os.Getenv("VERIF_DEBUG") != "" {
		fmt.Fprintln(os.Stderr, "c13BlocksAfterFailedBody: templates judged:", judged)
	}
	return nil
}

// c09PipedForms: probe. exec / includeIfExists written with a piped value mean what the plain call means: the piped value is
// the first argument unless a '_' says where it goes. The plain call is what the vectors judge; here every spelling of the
// same call renders the same, with and without an explicit context, in two executions.
func c09PipedForms() *Result {
	for _, fn := range []string{"exec", "includeIfExists"} {
		groups := [][]string{
			{fn + `("/sub.jet", given)`, `"/sub.jet" | ` + fn + `: given`, `"/sub.jet" | ` + fn + `(_, given)`, `given | ` + fn + `("/sub.jet", _)`, `given | ` + fn + `: "/sub.jet", _`},
			{fn + `("/sub.jet")`, `"/sub.jet" | ` + fn, `"/sub.jet" | ` + fn + `(_)`, `"/sub.jet" | ` + fn + `: _`},
			{fn + `("/none.jet", given)`, `"/none.jet" | ` + fn + `: given`, `given | ` + fn + `("/none.jet", _)`},
		}
		for g, forms := range groups {
			want := ""
			for k, form := range forms {
				l := jet.NewInMemLoader()
				l.Set("/sub.jet", `[{{ . }}]{{ return . }}`)
				l.Set("/main.jet", `<{{ `+form+` }}>{{ . }}`)
				set := jet.NewSet(l)
				t, err := set.GetTemplate("/main.jet")
				if err != nil {
					continue
				}
				for round := 0; round < 2; round++ {
					var b bytes.Buffer
					vars := jet.VarMap{}
					vars.Set("given", "GIVEN")
					err := safeExecute(t, &b, vars, "outer")
					got := fmt.Sprintf("%s err=%v", b.String(), err != nil)
					if k == 0 && round == 0 {
						want = got
					}
					if got != want {
						return &Result{Sig: map[string]interface{}{"kind": "piped-form", "tag": fmt.Sprint(fn, "|", g), "run": round, "errclass": ""}, Key: "probe",
							Observed: got, Expected: want,
							Detail: fmt.Sprintf("<{{ %s }}>{{ . }} rendered %q (err %v); written as %s it renders %q", form, b.String(), err, forms[0], want)}
					}
				}
			}
		}
	}
	return nil
}

// c12ArgumentFailures: probe. An argument Jet cannot pass to a Go function (nil or a value of the wrong kind at a fixed, the
// first variadic or a later variadic position, written or piped) fails the execution with an error that names the file and
// the 1-based line of the action - it never escapes as a panic or as a bare reflect message. Calls that succeed are not judged.
func c12ArgumentFailures() *Result {
	args := []string{"nil", "m.nokey", "xs", "m", "1", `"s"`, "true", "np", "ni"}
	calls := []string{"one(%s)", "join(%s)", `join("-", %s)`, `join("-", "a", %s)`, `join("-", %s, "a")`, "nums(%s)", "nums(1, %s)", "nums(1, 2, %s)", "anys(%s)", "anys(1, %s)",
		"%s | one", "%s | join", `%s | join: "a"`, `%s | join("-", _)`, `%s | join("-", "a", _)`, "%s | nums: 1", "%s | nums(1, _)", "ptr(%s)", "%s | ptr", "two(%s, %s)"}
	judged := 0
	for _, call := range calls {
		for _, arg := range args {
			expr := strings.Replace(call, "%s", arg, -1)
			l := jet.NewInMemLoader()
			l.Set("/w.jet", "line one\n{{ include \"/inc.jet\" }}")
			l.Set("/inc.jet", "a\nb\n  {{ "+expr+" }}\nafter")
			set := jet.NewSet(l)
			set.AddGlobal("one", func(s string) string { return s })
			set.AddGlobal("two", func(a int, b string) string { return b })
			set.AddGlobal("join", func(sep string, parts ...string) string { return strings.Join(parts, sep) })
			set.AddGlobal("nums", func(a int, more ...float64) int { return a + len(more) })
			set.AddGlobal("anys", func(a ...interface{}) int { return len(a) })
			set.AddGlobal("ptr", func(p *xProbeStruct) string { return "p" })
			t, err := set.GetTemplate("/w.jet")
			if err != nil {
				continue
			}
			var b bytes.Buffer
			vars := jet.VarMap{}
			vars.Set("xs", []int{1}).Set("m", map[string]interface{}{"k": 1}).Set("np", (*xProbeStruct)(nil))
			vars.Set("ni", nil)
			err = safeExecute(t, &b, vars, nil)
			if err == nil {
				continue
			}
			judged++
			msg := err.Error()
			if strings.Contains(msg, "PANIC escaped") || !strings.Contains(msg, `"/inc.jet":3`) || strings.Contains(b.String(), "after") {
				return &Result{Sig: map[string]interface{}{"kind": "argument-failure", "tag": call, "run": 0, "errclass": ""}, Key: "probe",
					Observed: msg, Expected: `an error naming "/inc.jet":3, nothing rendered after the failing action`,
					Detail: fmt.Sprintf("{{ %s }} on line 3 of /inc.jet failed with %q (output %q): the error of a failure Jet detects itself names the file and line of the action", expr, msg, b.String())}
			}
		}
	}
	if os.Getenv("VERIF_DEBUG") != "" {
		fmt.Fprintln(os.Stderr, "c12ArgumentFailures: failing calls judged:", judged)
	}
	return nil
}

type xProbeStruct struct{ A int }

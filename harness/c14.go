package main

import (
	"bytes"
	"encoding/json"
	"fmt"
	"html"
	"io"
	"net/url"
	"reflect"
	"sort"
	"strings"

	"github.com/CloudyKit/jet/v6"
)

type c14Stage struct {
	C     string `json:"c"`
	Shape string `json:"shape"`
	N     int    `json:"n"`
	Slot  int    `json:"slot"`
	Nest  int    `json:"nest"`
}
type c14Call struct {
	C    string   `json:"c"`
	Args []string `json:"args"`
}
type c14Vec struct {
	Stages  []c14Stage `json:"stages"`
	Outcome struct {
		OK    bool      `json:"ok"`
		Class string    `json:"class"`
		Log   []c14Call `json:"log"`
		Value string    `json:"value"`
	} `json:"outcome"`
	Conv []struct {
		Param  string `json:"param"`
		Arg    string `json:"arg"`
		Expect string `json:"expect"`
	} `json:"conv"`
	Builtins []struct {
		Name string   `json:"name"`
		Go   string   `json:"go"`
		Args []string `json:"args"`
	} `json:"builtins"`
}

var c14IdCalls int
var c14Log []c14Call
var c14View []string // what the jet.Func saw through the Arguments API

func c14Rec(name string, args ...string) string {
	if args == nil {
		args = []string{}
	}
	c14Log = append(c14Log, c14Call{name, args})
	return name + "(" + strings.Join(args, ",") + ")"
}

// c14Greeter: *c14Greeter has the methods Alias (pointer receiver) and Greet; c14Greeter only Greet
type c14Greeter struct{}

func (g *c14Greeter) Alias(n string) string { return "alias:" + n }
func (g c14Greeter) Greet(n string) string  { return "greet:" + n }

type c14Label string
type c14Dur int64

type c14Obj struct{}

func (c14Obj) M2(a, b string) string   { return c14Rec("vm2", a, b) }
func (*c14Obj) PM2(a, b string) string { return c14Rec("pm2", a, b) }

var c14Set *jet.Set

func c14Init() {
	s := jet.NewSet(jet.NewInMemLoader(), jet.WithSafeWriter(nil))
	s.AddGlobal("rec1", func(a string) string { return c14Rec("rec1", a) })
	s.AddGlobal("rec2", func(a, b string) string { return c14Rec("rec2", a, b) })
	s.AddGlobal("rec3", func(a, b, c string) string { return c14Rec("rec3", a, b, c) })
	s.AddGlobal("recv1", func(a string, r ...string) string { return c14Rec("recv1", append([]string{a}, r...)...) })
	s.AddGlobal("recv0", func(r ...string) string { return c14Rec("recv0", r...) })
	s.AddGlobal("sw", jet.SafeWriter(func(w io.Writer, b []byte) { w.Write([]byte("{" + string(b) + "}")) }))
	s.AddGlobal("gnilv", nil)
	s.AddGlobalFunc("idv", func(a jet.Arguments) reflect.Value { c14IdCalls++; return a.Get(0) })
	s.AddGlobal("obj", c14Obj{})
	s.AddGlobal("pobj", &c14Obj{})
	s.AddGlobalFunc("jf", func(a jet.Arguments) reflect.Value {
		n := a.NumOfArguments()
		args := make([]string, n)
		view := []string{fmt.Sprintf("n=%d", n)}
		for i := 0; i < n; i++ {
			args[i] = a.Get(i).String()
			view = append(view, fmt.Sprintf("isset(%d)=%v", i, a.IsSet(i)))
		}
		view = append(view, fmt.Sprintf("isset(%d)=%v", n, a.IsSet(n)), fmt.Sprintf("get(%d).valid=%v", n, a.Get(n).IsValid()))
		// ParseInto must place the same values at the same positions
		ptrs := make([]interface{}, n)
		strs := make([]string, n)
		for i := range ptrs {
			ptrs[i] = &strs[i]
		}
		allValid := true
		for i := 0; i < n; i++ {
			allValid = allValid && a.Get(i).IsValid()
		}
		if !allValid {
			// ParseInto refuses an invalid value by contract; nothing to compare
		} else if err := a.ParseInto(ptrs...); err != nil {
			view = append(view, "parseinto-error: "+err.Error())
		} else if strings.Join(strs, ",") != strings.Join(args, ",") {
			view = append(view, "parseinto="+strings.Join(strs, ","))
		}
		c14View = append(c14View, view...)
		return reflect.ValueOf(c14Rec("jf", args...))
	})
	s.AddGlobalFunc("jp2", func(a jet.Arguments) reflect.Value {
		a.RequireNumOfArguments("jp2", 2, -1)
		var s1, s2 string
		if err := a.ParseInto(&s1, &s2); err != nil {
			panic(err)
		}
		return reflect.ValueOf(c14Rec("jp2", s1, s2))
	})
	s.AddGlobalFunc("lazy", func(a jet.Arguments) reflect.Value {
		return reflect.ValueOf(jet.RendererFunc(func(r *jet.Runtime) {
			parts := []string{}
			for i := 0; i < a.NumOfArguments(); i++ {
				parts = append(parts, fmt.Sprint(a.Get(i).Interface()))
			}
			r.Write([]byte("[" + strings.Join(parts, ",") + "]"))
		}))
	})
	s.AddGlobal("greeter", c14Greeter{}).AddGlobal("pgreeter", &c14Greeter{})
	s.AddGlobal("anyint", func() interface{} { return 3 })
	// conversion targets
	s.AddGlobal("cvint", func(i int) string { return fmt.Sprint(i) })
	s.AddGlobal("cvfloat64", func(f float64) string { return fmt.Sprint(f) })
	s.AddGlobal("cvstring", func(x string) string { return x })
	s.AddGlobal("cvint64", func(i int64) string { return fmt.Sprint(i) })
	s.AddGlobal("cvvarstr", func(r ...string) string { return strings.Join(r, ",") })
	s.AddGlobal("nlabel", c14Label("lbl")).AddGlobal("ndur", c14Dur(5))
	s.AddGlobal("cvbytes", func(b []byte) string { return string(b) })
	s.AddGlobal("cviface", func(x interface{}) string { return fmt.Sprint(x) })
	s.AddGlobal("cvvarint", func(r ...int) string {
		p := []string{}
		for _, x := range r {
			p = append(p, fmt.Sprint(x))
		}
		return strings.Join(p, ",")
	})
	s.AddGlobal("iv7", 7).AddGlobal("bytes", []byte("bb"))
	s.AddGlobal("jsonv", map[string]interface{}{"a": []int{1, 2}, "b": "<x>"})
	var nilsl []string
	var nilmp map[string]int
	s.AddGlobal("lennilsl", nilsl).AddGlobal("lenpnilsl", &nilsl).AddGlobal("lenpnilmap", &nilmp).AddGlobal("lenparr", &[2]int{1, 2})
	s.AddGlobal("lensl", []int{1, 2, 3}).AddGlobal("lenmap", map[string]int{"a": 1, "b": 2})
	c14Set = s
}

func c14Callee(c string) string {
	switch c {
	case "vm2":
		return "obj.M2"
	case "pm2":
		return "pobj.PM2"
	case "nilv":
		return "gnilv"
	}
	return c
}

func c14Source(st []c14Stage) string {
	var b strings.Builder
	b.WriteString("{{ ")
	for i, s := range st {
		args := []string{}
		for k := 1; k <= s.N; k++ {
			if (s.Shape == "slot" && k == s.Slot) || (s.Shape == "slot2" && (k == s.Slot || k == s.Slot%s.N+1)) {
				args = append(args, "_")
			} else {
				if k == s.Nest {
					// an argument that is itself a (reflected) call
					args = append(args, fmt.Sprintf("rec1(%q)", fmt.Sprintf("a%d", k)))
				} else {
					args = append(args, fmt.Sprintf("%q", fmt.Sprintf("a%d", k)))
				}
			}
		}
		if i > 0 {
			b.WriteString(" | ")
		}
		b.WriteString(c14Callee(s.C))
		if s.C == "nilv" {
			continue // a bare term, not a call
		}
		switch s.Shape {
		case "plain", "pipeparen", "slot", "slot2":
			b.WriteString("(" + strings.Join(args, ", ") + ")")
		case "colon", "pipecolon":
			b.WriteString(": " + strings.Join(args, ", "))
		}
	}
	b.WriteString(" }}")
	return b.String()
}

func c14Replay(i int, raw json.RawMessage) Result {
	var v c14Vec
	if err := json.Unmarshal(raw, &v); err != nil {
		return Result{Detail: "bad vector: " + err.Error()}
	}
	if c14Set == nil {
		c14Init()
	}
	if len(v.Stages) == 0 {
		return c14Tables(&v)
	}
	src := c14Source(v.Stages)
	key := src
	shapes := []string{}
	for _, s := range v.Stages {
		shapes = append(shapes, s.C+":"+s.Shape)
	}
	sig := map[string]interface{}{"stages": strings.Join(shapes, " "), "class": v.Outcome.Class}
	c14Log, c14View = nil, nil
	t, err := c14Set.Parse("/c.jet", src)
	if err != nil {
		if v.Outcome.Class == "twoslots" {
			return Result{OK: true, Key: key}
		}
		sig["kind"] = "parse"
		return Result{Sig: sig, Key: key, Observed: err.Error(), Detail: src + " does not parse: " + err.Error()}
	}
	if v.Outcome.Class == "twoslots" {
		sig["kind"] = "accepted"
		return Result{Sig: sig, Key: key, Detail: src + " has two pipe slots but was accepted"}
	}
	var b bytes.Buffer
	err = safeExecute(t, &b, nil, nil)
	if strings.Contains(fmt.Sprint(err), "PANIC escaped") {
		sig["kind"] = "panic"
		return Result{Sig: sig, Key: key, Observed: err.Error(), Detail: src + ": " + err.Error()}
	}
	if v.Outcome.OK != (err == nil) {
		sig["kind"] = "result"
		return Result{Sig: sig, Key: key, Observed: fmt.Sprint(err), Detail: fmt.Sprintf("%s: error %v, spec ok=%v (%s)", src, err, v.Outcome.OK, v.Outcome.Class)}
	}
	if err != nil {
		return Result{OK: true, Key: key}
	}
	got, _ := json.Marshal(c14Log)
	want, _ := json.Marshal(v.Outcome.Log)
	if len(v.Outcome.Log) == 0 {
		want = []byte("null")
	}
	if len(c14Log) == 0 {
		got = []byte("null")
	}
	if string(got) != string(want) {
		sig["kind"] = "calls"
		return Result{Sig: sig, Key: key, Observed: c14Log, Expected: v.Outcome.Log,
			Detail: fmt.Sprintf("%s called %s, normal form %s", src, got, want)}
	}
	if b.String() != v.Outcome.Value {
		sig["kind"] = "value"
		return Result{Sig: sig, Key: key, Observed: b.String(), Expected: v.Outcome.Value, Detail: src + " rendered " + b.String()}
	}
	// Arguments view of every jet.Func stage: count, presence and out-of-range behaviour
	k := 0
	for _, c := range v.Outcome.Log {
		if c.C != "jf" {
			continue
		}
		n := len(c.Args)
		want := []string{fmt.Sprintf("n=%d", n)}
		for j := 0; j < n; j++ {
			want = append(want, fmt.Sprintf("isset(%d)=%v", j, c.Args[j] != "<invalid Value>"))
		}
		want = append(want, fmt.Sprintf("isset(%d)=false", n), fmt.Sprintf("get(%d).valid=false", n))
		if k+len(want) > len(c14View) || strings.Join(c14View[k:k+len(want)], ";") != strings.Join(want, ";") {
			sig["kind"] = "argsview"
			return Result{Sig: sig, Key: key, Observed: c14View, Expected: want,
				Detail: fmt.Sprintf("%s: Arguments API shows %v, the normal form has %v", src, c14View, want)}
		}
		k += len(want)
	}
	return Result{OK: true, Key: key}
}

func c14Render(src string) (string, error) {
	t, err := c14Set.Parse("/t.jet", src)
	if err != nil {
		return "", err
	}
	var b bytes.Buffer
	err = safeExecute(t, &b, nil, nil)
	return b.String(), err
}

// conversion table and built-ins (one vector)
func c14Tables(v *c14Vec) Result {
	for _, c := range v.Conv {
		// the plain call, and the same argument vector spelt with the first argument piped in and with the
		// last argument piped into a slot (ArgVector: all three have one normal form)
		srcs := []string{"{{ cv" + c.Param + "(" + c.Arg + ") }}"}
		if args := strings.Split(c.Arg, ", "); c.Arg != "" {
			n := len(args)
			srcs = append(srcs, "{{ "+args[0]+" | cv"+c.Param+"("+strings.Join(args[1:], ", ")+") }}",
				"{{ "+args[n-1]+" | cv"+c.Param+"("+strings.Join(append(append([]string{}, args[:n-1]...), "_"), ", ")+") }}")
		}
		for form, src := range srcs {
			out, err := c14Render(src)
			sig := map[string]interface{}{"kind": "convert", "param": c.Param, "arg": c.Arg, "form": form}
			if err != nil && strings.Contains(err.Error(), "PANIC") {
				sig["kind"] = "panic"
				return Result{Sig: sig, Detail: src + ": " + err.Error(), Key: "tables"}
			}
			if (c.Expect == "ERR") != (err != nil) || (err == nil && out != c.Expect) {
				return Result{Sig: sig, Observed: out, Expected: c.Expect, Key: "tables",
					Detail: fmt.Sprintf("%s rendered %q (err %v), contract says %q", src, out, err, c.Expect)}
			}
		}
	}
	for _, bi := range v.Builtins {
		src := "{{ " + bi.Name + "(" + strings.Join(bi.Args, ", ") + ") }}"
		var want string
		a := make([]string, len(bi.Args))
		for i, x := range bi.Args {
			if strings.HasPrefix(x, `"`) {
				json.Unmarshal([]byte(x), &a[i])
			} else {
				a[i] = x
			}
		}
		switch bi.Go {
		case "strings.ToLower":
			want = strings.ToLower(a[0])
		case "strings.ToUpper":
			want = strings.ToUpper(a[0])
		case "strings.HasPrefix":
			want = fmt.Sprint(strings.HasPrefix(a[0], a[1]))
		case "strings.HasSuffix":
			want = fmt.Sprint(strings.HasSuffix(a[0], a[1]))
		case "strings.Repeat":
			want = strings.Repeat(a[0], atoi(a[1]))
		case "strings.Replace":
			want = strings.Replace(a[0], a[1], a[2], atoiSigned(a[3]))
		case "strings.Split":
			src = "{{ range " + bi.Name + "(" + strings.Join(bi.Args, ", ") + ") }}[{{.}}]{{ end }}"
			for _, p := range strings.Split(a[0], a[1]) {
				want += "[" + p + "]"
			}
		case "strings.TrimSpace":
			want = strings.TrimSpace(a[0])
		case "html.EscapeString":
			want = html.EscapeString(a[0])
		case "url.QueryEscape":
			want = url.QueryEscape(a[0])
		case "json.Marshal":
			src = "{{ " + bi.Name + "(" + bi.Args[0] + ") | raw }}"
			j, _ := json.Marshal(map[string]interface{}{"a": []int{1, 2}, "b": "<x>"})
			want = string(j)
		case "json.Encoder":
			var bb bytes.Buffer
			json.NewEncoder(&bb).Encode(map[string]interface{}{"a": []int{1, 2}, "b": "<x>"})
			want = bb.String()
		case "len":
			switch bi.Args[0] {
			case "lensl":
				want = "3"
			case "lenmap", "lenparr":
				want = "2"
			case "lennilsl", "lenpnilsl", "lenpnilmap":
				want = "0"
			default:
				want = fmt.Sprint(len(a[0]))
			}
		case "range":
			src = "{{ range " + bi.Name + "(" + strings.Join(bi.Args, ", ") + ") }}[{{.}}]{{ end }}"
			for x := atoi(a[0]); x < atoi(a[1]); x++ {
				want += fmt.Sprintf("[%d]", x)
			}
		case "mapliteral":
			src = `{{ m := map("k1", "v1", "k2", iv7) }}{{ m.k1 }},{{ m["k2"] }},{{ len(m) }}`
			want = "v1,7,2"
		case "mapliteral-intkey":
			src = `{{ m := map(iv7, "v") }}{{ len(m) }}`
			want = "1" // a one-entry map (or an error), never a panic
		case "sliceliteral":
			src = "{{ range " + bi.Name + "(" + strings.Join(bi.Args, ", ") + ") }}[{{.}}]{{ end }}"
			for _, x := range bi.Args {
				switch x {
				case "iv7":
					want += "[7]"
				default:
					want += "[" + strings.Trim(x, `"`) + "]"
				}
			}
		}
		out, err := c14Render(src)
		sig := map[string]interface{}{"kind": "builtin", "name": bi.Name, "go": bi.Go}
		okOut := out == want
		if bi.Go == "mapliteral-intkey" {
			okOut = out == "1"
			if err != nil && !strings.Contains(err.Error(), "PANIC") {
				err, okOut = nil, true // a returned error is acceptable for a non-string key
			}
		}
		if err != nil || !okOut {
			if err != nil && strings.Contains(err.Error(), "PANIC") {
				sig["kind"] = "panic"
			}
			return Result{Sig: sig, Observed: out, Expected: want, Key: "tables",
				Detail: fmt.Sprintf("%s rendered %q (err %v); %s gives %q", src, out, err, bi.Go, want)}
		}
		// the same call with its first argument piped in, and with its last argument piped into a slot
		if n := len(bi.Args); n >= 1 && src == "{{ "+bi.Name+"("+strings.Join(bi.Args, ", ")+") }}" {
			for form, alt := range []string{
				"{{ " + bi.Args[0] + " | " + bi.Name + "(" + strings.Join(bi.Args[1:], ", ") + ") }}",
				"{{ " + bi.Args[n-1] + " | " + bi.Name + "(" + strings.Join(append(append([]string{}, bi.Args[:n-1]...), "_"), ", ") + ") }}"} {
				out2, err2 := c14Render(alt)
				if (err2 != nil) != (err != nil) || out2 != out {
					sig["kind"], sig["form"] = "builtin-forms", form+1
					return Result{Sig: sig, Observed: out2, Expected: out, Key: "tables",
						Detail: fmt.Sprintf("%s rendered %q (err %v), the plain call %s renders %q", alt, out2, err2, src, out)}
				}
			}
		}
		// every argument expression of a call is evaluated exactly once (idv is an identity function that counts)
		wrapped := make([]string, len(bi.Args))
		for i, x := range bi.Args {
			wrapped[i] = "idv(" + x + ")"
		}
		c14IdCalls = 0
		src2 := "{{ " + bi.Name + "(" + strings.Join(wrapped, ", ") + ") | isset }}"
		if _, err := c14Render(src2); err == nil && c14IdCalls != len(bi.Args) {
			sig["kind"] = "argeval"
			return Result{Sig: sig, Observed: c14IdCalls, Expected: len(bi.Args), Key: "tables",
				Detail: fmt.Sprintf("%s evaluated its %d argument expressions %d times", src2, len(bi.Args), c14IdCalls)}
		}
	}
	// map() and slice() make a NEW collection every time: what one execution stores in its map is not in the next one's
	for round := 0; round < 2; round++ {
		out, err := c14Render(`{{ m := map() }}{{ m.seen = "yes" }}{{ len(m) }},{{ len(map()) }},{{ map() | len }},{{ len(slice()) }}`)
		if err != nil || out != "1,0,0,0" {
			return Result{Sig: map[string]interface{}{"kind": "builtin", "name": "map", "go": "fresh-collection"}, Observed: out, Expected: "1,0,0,0", Key: "tables",
				Detail: fmt.Sprintf("execution %d: a map made by map() got one entry, then len of further map() / slice() calls: rendered %q (err %v), want 1,0,0,0", round, out, err)}
		}
	}
	// a jet.Func may look at its arguments when the value it returned is rendered: they are still the arguments of that call
	for _, e := range [][2]string{{`{{ "x" | lazy }}`, "[x]"}, {`{{ "x" | lazy: 7 }}`, "[x,7]"}, {`{{ lazy("x", 7) }}`, "[x,7]"}, {`{{ 7 | lazy("x", _) }}`, "[x,7]"},
		{`{{ "a" | upper | lazy }}`, "[A]"}, {`{{ "a" | upper | lazy: 7 }}`, "[A,7]"}} {
		out, err := c14Render(e[0])
		if err != nil || out != e[1] {
			return Result{Sig: map[string]interface{}{"kind": "lazy-arguments"}, Observed: out, Expected: e[1], Key: "tables",
				Detail: fmt.Sprintf("%s rendered %q (err %v), want %q", e[0], out, err, e[1])}
		}
	}
	// a method called on a pointer, then the same method on a plain value of the type (the method sets differ), and back
	for round, src := range []string{`{{ pgreeter.Greet("bob") }}`, `{{ greeter.Greet("bob") }}`, `{{ "bob" | greeter.Greet }}`, `{{ pgreeter.Greet("bob") }}`, `{{ pgreeter.Alias("bob") }}`} {
		want := "greet:bob"
		if round == 4 {
			want = "alias:bob"
		}
		out, err := c14Render(src)
		if err != nil || out != want {
			return Result{Sig: map[string]interface{}{"kind": "method-after-pointer"}, Observed: out, Expected: want, Key: "tables",
				Detail: fmt.Sprintf("step %d: %s rendered %q (err %v), want %q", round, src, out, err, want)}
		}
	}
	// arguments that are results of functions declared to return interface{}: a jet.Func reading them with ParseInto gets
	// the value held (a reflected function with a concrete parameter type refuses them; the property is silent there)
	for _, e := range [][2]string{{`{{ range ints(0, anyint()) }}[{{ . }}]{{ end }}`, "[0][1][2]"}} {
		out, err := c14Render(e[0])
		if err != nil || out != e[1] {
			return Result{Sig: map[string]interface{}{"kind": "interface-typed-argument"}, Observed: out, Expected: e[1], Key: "tables",
				Detail: fmt.Sprintf("%s rendered %q (err %v), want %q", e[0], out, err, e[1])}
		}
	}
	// the same parsed template executed with the callee rebound (and rebound inside a loop):
	// "x | f", "f(x)" and "f: x" must all call the function f is bound to *now*
	t, err := c14Set.Parse("/rebind.jet", `{{ "x" | fn }};{{ fn("x") }};{{ fn: "x" }};{{ range _, f := fns }}{{ "y" | f }},{{ f("y") }};{{ end }}`)
	if err != nil {
		return Result{Detail: "harness: " + err.Error()}
	}
	mk := func(name string) func(string) string { return func(a string) string { return name + "(" + a + ")" } }
	for round, name := range []string{"A", "B", "A"} {
		vars := jet.VarMap{}
		vars.Set("fn", mk(name))
		vars.Set("fns", []func(string) string{mk("P"), mk("Q"), mk(name)})
		var b bytes.Buffer
		err := safeExecute(t, &b, vars, nil)
		want := fmt.Sprintf("%[1]s(x);%[1]s(x);%[1]s(x);P(y),P(y);Q(y),Q(y);%[1]s(y),%[1]s(y);", name)
		if err != nil || b.String() != want {
			return Result{Sig: map[string]interface{}{"kind": "rebind", "round": round}, Observed: b.String(), Expected: want, Key: "tables",
				Detail: fmt.Sprintf("execution %d with fn=%s rendered %q (err %v), every form must call the current binding: %q", round, name, b.String(), err, want)}
		}
	}
	return Result{OK: true, Key: "tables"}
}

func atoiSigned(s string) int {
	if strings.HasPrefix(s, "-") {
		return -atoi(s[1:])
	}
	return atoi(s)
}

var _ = sort.Strings

func init() {
	commands["replay-C14"] = func(a []string) int { return replayLoop(a[0], a[1], c14Replay) }
}

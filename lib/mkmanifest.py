#!/usr/bin/env python3
"""Regenerates MANIFEST.json from the table below (keeps it schema-valid at all times)."""
import json, os, subprocess
V = os.path.dirname(os.path.dirname(os.path.abspath(__file__)))
props = [json.loads(l) for l in open(os.path.join(V, "properties.jsonl"))]

NOTE_TRUST = ("Trusted base: TLC 1.8.0, the TLA+ module named in `technique` (contract operators written from the "
              "property text), the Go harness' printing/comparison code, and for file-placement only Go's path.Clean.")

EXEC_TRUST = ("Trusted base: TLC 1.8.0, spec/JetExec.tla + JetProg.tla (the interpreter contract), the Go concretiser "
              "(abstract program -> Jet source, one statement per line) and its string comparison. Values are opaque atoms; "
              "Go data kinds beyond the harness catalogue are not explored.")

CHECKS = {
 "C01": dict(
   technique="TLA+ JetExec with output chunks tagged V (escaped once by the Set escaper) / R:<stage> (SafeWriter) / T (literal text), "
             "try buffers copied without re-escaping, model-checked by TLC over Gen_C01; every behaviour replayed under three Set "
             "escapers (bracketing custom SafeWriter, default HTML, none)",
   text="TLC enumerates a rendering action with each final pipeline stage x 11 value shapes with HTML-special bytes x every wrapper "
        "path up to the bound (if, range, block, yielded content, include, exec, try that commits, try that fails later, catch "
        "body) and computes the tagged output. The real library must produce: each data chunk bracketed exactly once by the "
        "custom escaper and literal text never; with the default escaper exactly template.HTMLEscape of the printed form; with "
        "no escaper the printed form; SafeWriter stages their own escaping exactly once.",
   design_ref="DESIGN.md §5 C01", note=EXEC_TRUST + " Printed forms of the catalogue values are stated in the harness (fastprinter/fmt); values implementing Renderer are not explored."),
 "C18": dict(
   technique="TLA+ JetExec.DoApi (Let/Set/SetOrLet/LetGlobal/Resolve/Context/YieldBlock as actions on the scope heap of the call "
             "site) model-checked by TLC over Gen_C18; behaviours replayed with harness-provided jet.Funcs calling the real Runtime "
             "API; Arguments view decided with the call normal form (JetCall)",
   text="TLC enumerates sequences of Runtime API calls interleaved with template-level := and = at every call site up to the "
        "bound and computes what later reads of every name, '.', and a yielded block render; the real Runtime methods, called "
        "from custom functions, must leave the interpreter rendering the same bytes. Arguments.Get/NumOfArguments/IsSet/ParseInto "
        "are compared with the argument vector of the specification's normal form for piped and slot-placed values.",
   design_ref="DESIGN.md §5 C18", note=EXEC_TRUST),
 "C02": dict(
   technique="TLA+ JetStruct (the parser as a push-down acceptor over structural tokens: accept/reject verdicts), JetLexemes "
             "(lexeme-class sequences per keyword context), JetLexProc (lexer goroutine / parser channel protocol, TLC liveness: "
             "no deadlock, parser returns, no goroutine left behind); every enumerated source parsed by the real Set.Parse and "
             "Set.GetTemplate in an isolated worker process with a deadline and a goroutine count",
   text="TLC enumerates all structural token sequences up to the bound (including unterminated action, comment and string "
        "literal, missing and surplus end, misplaced extends/import) with the acceptor's verdict, and all short lexeme-class "
        "sequences in every keyword context (no verdict: totality). The real parser must agree with the verdict, must return a "
        "template xor an error naming the template and a line of the source for every input and every truncation, through "
        "Parse and through the loader (twice, so a failed parse is not answered from the cache); a worker process observes "
        "crashes of the lexer goroutine, hangs and leaked goroutines. The protocol model shows the draining parser cannot "
        "deadlock or leak and that the non-draining runtime-error path does.",
   design_ref="DESIGN.md §5 C02", note=NOTE_TRUST + " 'Never hangs' is a 5 s deadline per parse; goroutine counts are polled for 1 s. The lexer/parser traces are not bound to JetLexProc by hooks (observed through goroutine counts instead)."),
 "C03": dict(
   technique="TLA+ JetLex (denotational contract Rendered(input) over byte strings, parametric in action/comment delimiters, with "
             "trim markers, comments and leading import clauses) enumerated exhaustively by TLC (all byte strings / all token "
             "strings up to the bound); every string rendered by the real library under the same delimiter configuration",
   text="For four delimiter configurations TLC enumerates every byte string up to the bound over the delimiter bytes plus '-', "
        "space, newline and an identifier byte, and every token string up to the bound over delimiters, trim markers, whitespace "
        "runs, identifiers and lone delimiter bytes, with and without leading import clauses; the contract says what must be "
        "rendered or that the source must be rejected (unclosed comment). The real library must produce exactly those bytes. "
        "Exhaustive over the bounded string space, which covers every adjacency of text, comment, action and trim marker.",
   design_ref="DESIGN.md §5 C03", note=NOTE_TRUST + " Action bodies are restricted to one identifier; other bodies are 'unspecified' and not emitted. The byte-level mechanism model (LexImpl) of the design is not built; the contract is bound directly to the code."),
 "C04": dict(
   technique="TLA+ JetExpr (precedence ladder as an unparser with minimal parentheses; evaluator on exact rationals with probe-call "
             "log) enumerated by TLC over tree shapes x operator pairs x typed leaves; every tree rendered by the real library in "
             "four surface forms, value and evaluation order compared",
   text="TLC grows every tree of the shape family, keeps those in the property's typed fragment, checks that relational, equality "
        "and logical operators yield booleans and integers combine integrally, and emits token lists with minimal and with full "
        "parentheses, the exact value and the order in which probe operands must be called. The real library parses and evaluates "
        "each in four spellings (with spaces, without, fully parenthesised, and/or/not): a wrong precedence or associativity, a "
        "sign lexed into a literal, a lost promotion, or an operand evaluated that should not be, changes value or probe log.",
   design_ref="DESIGN.md §5 C04", note=NOTE_TRUST + " Floats are compared numerically (1e-9 relative); zero divisors, % on floats, bool/uint operands and chained relational operators are outside the typed fragment."),
 "C05": dict(
   technique="TLA+ JetExec (DoIf/IfExit, DoRange/RangeStep with the binding table per ranger kind and variable form) model-checked "
             "by TLC over Gen_C05; every behaviour replayed on the real interpreter with a Go data catalogue for condition values",
   text="TLC enumerates single ifs over condition values of every Go kind, else-if chains with every truth assignment, and range "
        "over every subject kind x length x variable form x assignment form x '_' placement x else, plus nested ranges and ranges "
        "left early by return; the specification's truthiness is the property's (only false, 0, \"\" and nil are falsy) and its "
        "bindings are the documented ones. The real library must render the same bytes (maps compared as multisets).",
   design_ref="DESIGN.md §5 C05", note=EXEC_TRUST),
 "C08": dict(
   technique="TLA+ JetExec + template-set operators (EffBlock: own > later imports > earlier imports > extended chain; RootOf) "
             "model-checked by TLC over Gen_C08 template sets; every behaviour replayed on the real library",
   text="TLC enumerates template sets of six files (extends chains 0-2, imports, every subset of files defining a block), five "
        "yield placements, every ordered selection of named arguments with three kinds of default, content by caller / default / "
        "none / nested, and histories in which two entry templates share an imported library; each definition body prints a "
        "unique marker, so the real output shows which definition ran. Exhaustive over the bounded family.",
   design_ref="DESIGN.md §5 C08", note=EXEC_TRUST),
 "C09": dict(
   technique="TLA+ JetExec (DoInclude/IncludeExit, DoExec/ExecExit with discard writer, return register, root-ancestor selection) "
             "model-checked by TLC over Gen_C09; every behaviour replayed on the real interpreter",
   text="TLC enumerates every call site kind (include, exec, includeIfExists, each with and without explicit context, and with a "
        "missing template) inside every wrapper path up to the bound, callee shapes that declare variables, rebind '.', yield a "
        "block of the includer and extend 0-2 layouts, and 15 placements of return; the real library must render the same bytes "
        "around the call site, bind the same exec value and leak no variable or context.",
   design_ref="DESIGN.md §5 C09", note=EXEC_TRUST),
 "C06": dict(
   technique="TLA+ JetAccess (object table of a Go value catalogue; Resolve written from Go's selector rules: auto-dereference, "
             "methods first, shallowest promoted field, key of the key type, in-range index) enumerated by TLC over all access paths; "
             "every path evaluated by the real library on the mirrored Go values (mirror checked by reflection)",
   text="TLC grows every access path up to the bound over 18 roots and a 50-step alphabet (a.b and a[\"b\"] spellings, calls, "
        "indexes, slice bounds), checks that both spellings agree in the contract, and emits for each path the stored leaf, nil, or "
        "error. The real library must render exactly the stored leaf (leaf texts are unique), nil for absent keys and nil maps, "
        "and a returned error - never a panic, never another value - for everything else.",
   design_ref="DESIGN.md §5 C06", note=NOTE_TRUST + " Go types cannot be created at run time: data graphs outside the catalogue are not explored; bytes of strings other than one are not indexed."),
 "C17": dict(
   technique="TLA+ JetAccess.IsSetPath / KeyPresent (exists and non-nil; key present) over the same enumerated access paths as C06; "
             "the real isset evaluated in five forms per path (direct, with a second argument, inside if, piped, piped into a slot) "
             "plus the two-value map lookup",
   text="For every enumerated path, valid or invalid at any depth, the real isset must render exactly true/false as the contract "
        "says and Execute must return nil (never fail, never panic); zero numbers, empty strings and false count as existing; "
        "v, ok := m[k] must bind ok to key presence also when the stored value is nil.",
   design_ref="DESIGN.md §5 C17", note=NOTE_TRUST),
 "C07": dict(
   technique="TLA+ JetExec interpreter machine model-checked by TLC over scoping program families (Gen_C07: wrapper paths x "
             "declare/rebind/shadow focals, loop-variable capture per ranger kind); every behaviour replayed on the real interpreter",
   text="TLC executes the interpreter specification on every program of the family, checking at each construct exit that scope, "
        "context, content and writer are those at entry; the real library must render exactly the specification's output for "
        "reads of every variable, isset of every declared name and '.' before, inside and after each construct, with shadowing "
        "of VarMap entries and globals and captured loop variables of every ranger kind.",
   design_ref="DESIGN.md §5 C07", note=EXEC_TRUST),
 "C10": dict(
   technique="TLA+ JetExec with the pooled-Runtime protocol (ExecStart/ExecEnd) model-checked by TLC over histories of Execute "
             "calls (Gen_C10); each history replayed on one goroutine of the real library so sync.Pool hands the Runtime back",
   text="TLC explores every history A, probe, A, probe where A is a wrapper path around a focal that may fail inside or outside "
        "try, checks that each execution starts from a clean Runtime and that the specification is itself pure; the as-implemented "
        "recover (content not reset) is refuted at design level. The real library executes each history in one process on one "
        "goroutine and every call must produce the specification's bytes and error, the second A identical to the first.",
   design_ref="DESIGN.md §5 C10", note=EXEC_TRUST + " sync.Pool reuse on one goroutine is likely but not guaranteed by Go."),
 "C11": dict(
   technique="TLA+ JetConc (goroutines x operations, GetTemplate decomposed at Cache/Loader-call granularity, globals under their "
             "lock) model-checked exhaustively by TLC (no deadlock, termination under fairness, serial results); every TLC "
             "interleaving replayed on the real Set by a gate-driven scheduler; the operation mixes also run free under Go's race "
             "detector",
   text="TLC explores every interleaving of the goroutine programs (concurrent first loads of the same template, loads of "
        "different names, executions while a global is updated, loader edits between loads) and records the schedule and the "
        "result each operation must return. A scheduler that lets exactly one goroutine run between gates (gating Loader and "
        "Cache wrappers, no source changes) drives the real Set through each schedule; every result must match. Data-race "
        "freedom is not observable in TLA+: the same programs plus a mix that populates the struct-field cache with a new type, "
        "uses pooled rangers, run-time includes, global updates and in-memory loader edits run free-running under -race, and "
        "every concurrent Execute must render what it renders alone.",
   design_ref="DESIGN.md §5 C11", note=NOTE_TRUST + " Go's race detector is the oracle for data races (reported in evidence as exploration); gate-driven replay serialises goroutines and therefore cannot see races itself."),
 "C12": dict(
   technique="TLA+ JetExec (Raise with class and statement id, Unwind, ErrorPrefix by construction of `out`) model-checked by TLC "
             "over Gen_C12 (failure class x position x file/nesting); every behaviour replayed on the real interpreter with a "
             "catalogue of concrete failing expressions, the error text checked for file and 1-based line",
   text="TLC enumerates 32 failure classes x 12 positions inside a statement x wrapper paths that move the failing action into an "
        "included file, an imported block, a block body, a range, a try, an exec'd template or an extended layout, with a second "
        "execution on the recycled Runtime; the specification yields the exact output prefix and the statement that fails. The "
        "real library must return an error (never panic), name that statement's file and line (the concretiser puts every "
        "statement on its own line) and have written exactly the prefix.",
   design_ref="DESIGN.md §5 C12", note=EXEC_TRUST + " Errors raised inside called Go functions (jet.Func built-ins, user funcs) are only required to be returned, not to carry file:line."),
 "C13": dict(
   technique="TLA+ JetExec (small-step interpreter machine with explicit Go panic/defer unwinding) model-checked by TLC over "
             "generated program families (Gen_C13); every terminated behaviour concretised to Jet source and replayed on the real "
             "interpreter, output and error compared",
   text="TLC runs the interpreter specification on every program of the family (all wrapper paths up to the bound inside a try "
        "body, every failure class, every catch form, inside and outside a yielded block) checking at every step that a "
        "finished construct restores scope/context/content/writer, that a failed try restores them, and that output is "
        "append-only; the as-implemented unwinding (no restore in try) is refuted at design level. Each program is then executed "
        "by the real library and must render byte-for-byte what the specification computes, probes before and after the try "
        "included. Exhaustive over the bounded program family, which is the quantifier of C13.",
   design_ref="DESIGN.md §5 C13", note=EXEC_TRUST),
 "C19": dict(
   technique="TLA+ JetLoaderMem / JetLoaderFS (loader contracts: normalised-key map; exactly-the-regular-files; first-loader-wins) "
             "enumerated by TLC; every history/stack replayed on the real InMem, OS, http, embed and multi loaders; random InMem "
             "histories trace-validated (Trace_LoaderMem)",
   text="TLC enumerates all bounded mutation histories over spellings (in-memory loader) and all stacks of well-formed trees "
        "(file-system and multi loaders) and computes, from the contract, Exists and the owning loader for every query; the real "
        "loaders are driven through each case (temp dirs, http.Dir, an embedded fixture, NewLoader+AddLoaders) and must agree on "
        "Exists and on the exact content Open yields. Random long in-memory histories recorded from the real loader are accepted "
        "event by event by the trace specification.",
   design_ref="DESIGN.md §5 C19", note=NOTE_TRUST + " The embed.FS tree is a compile-time fixture."),
 "C16": dict(
   technique="TLA+ JetSet (probe-level mechanism of getTemplate + contract HitIdentity/FailuresNeverCached/DevAlwaysReloads/"
             "ParseNeverPuts/ExtensionOrder) model-checked by TLC over all bounded histories; TLC histories (BFS + simulation) "
             "replayed on a real Set with fault-injecting Loader and recording Cache; random real histories trace-validated (Trace_Set)",
   text="TLC explores every history up to the bound over lookups, Parse, loader edits/deletions and injected faults for five "
        "(extension list, development mode) configurations and checks the contract as invariants and action properties; the "
        "as-implemented Put-key variant is refuted at design level. Each generated history is executed on the real Set twice "
        "(custom and default cache) comparing results, template identity, rendered version and the exact Loader/Cache call "
        "sequence; recorded random histories from the real Set are accepted step by step by the trace specification with "
        "the contract invariants evaluated in every state. Histories, faults and configurations are exactly the quantifier of C16.",
   design_ref="DESIGN.md §5 C16", note=NOTE_TRUST),
 "C14": dict(
   technique="TLA+ JetCall (normal form <<callee, argument vector>> of every surface form; pipeline evaluation with call log; "
             "count, two-slot and conversion contracts; table of documented built-ins) enumerated by TLC; every pipeline replayed "
             "with recording callees of each kind, call log, result and errors compared; built-ins compared with the Go functions",
   text="TLC enumerates pipelines of one to three stages over reflected functions (fixed, variadic), value and pointer methods and "
        "a jet.Func, every surface form per stage with the slot at every index, and computes the call log the normal form "
        "prescribes; the invariants say all spellings of a call agree and each stage is called once in order. The real library "
        "must call the recording callees with exactly those argument vectors, render the chained result, report wrong counts and "
        "two slots as errors, convert arguments per the table, and every documented built-in must return what the Go function it "
        "exposes returns; the same parsed template re-executed with the callee rebound must call the new binding.",
   design_ref="DESIGN.md §5 C14", note=NOTE_TRUST),
 "C20": dict(
   technique="TLA+ JetWalk (the grammar's AST shape per construct: source text + node list; Walk as a depth-first machine; "
             "VisitsEachOnce) enumerated by TLC; every template parsed by the real parser and walked by utils.Walk with a recording "
             "visitor that descends with VisitorContext.Visit",
   text="TLC builds a template for every node kind in every child slot of every parent kind with optional children present and "
        "absent, and the node list each must produce. The real parser's tree is walked by the real visitor: it must not panic, "
        "must terminate (a node handed out more than 20 times is reported as non-termination instead of overflowing the stack), "
        "must not visit a node twice, and the bag of visited node types must be the specification's.",
   design_ref="DESIGN.md §5 C20", note=NOTE_TRUST + " ListNode and the unexported catchNode are containers (at most once)."),
 "C15": dict(
   technique="TLA+ JetPath (Canon/ProbeCalls contract) model-checked by TLC; every TLC terminal state replayed "
             "against the real Set with recording Loader+Cache; recorded random lookups trace-validated by TLC (Trace_Path)",
   text="TLC enumerates every spelling up to the bound (exhaustive), checks the contract's own invariants, and each "
        "enumerated spelling x entry point x extension list is executed on the real library and the exact sequence of "
        "Loader/Cache calls compared with the specification; a second, randomised population of longer spellings is "
        "recorded from the real Set and validated by TLC. Bounded exhaustiveness over spellings is the right level: "
        "canonicalisation is compositional in the segments.",
   design_ref="DESIGN.md §5 C15", note=NOTE_TRUST),
}

hooks_commits = []
try:
    out = subprocess.run(["git", "-C", "/repo", "log", "--format=%H %s"], capture_output=True, text=True).stdout
    hooks_commits = [l.split()[0] for l in out.splitlines() if " verif:" in l or l.split(" ", 1)[1].startswith("verif")]
except Exception:
    pass

m = {
 "version": 1,
 "setup_cmd": "cd /verif/harness && cp /repo/go.sum go.sum && GOFLAGS=-mod=mod GOPROXY=off GOSUMDB=off GOTOOLCHAIN=local go build -tags verif -o /dev/null . && java -cp /opt/veriftools/tla/tla2tools.jar tlc2.TLC -h >/dev/null 2>&1; true",
 "hooks": {"guard": "verif", "enable": "go build -tags verif (the harness module replaces github.com/CloudyKit/jet/v6 with /repo)",
           "baseline_off_cmd": "cd /repo && go test -json -vet=off -count=1 -timeout 25m ./...",
           "source_commits": hooks_commits, "add_only": True},
 "engines": [
   {"name": "tlc", "path": "spec/", "serves_properties": sorted(CHECKS), "kind_free_text": "explicit TLA+ specification, TLC exhaustive/simulation model checking and trace validation"},
   {"name": "jetharness", "path": "harness/", "serves_properties": sorted(CHECKS), "kind_free_text": "Go conformance harness: replays TLC behaviours into the real library, records traces from it"},
 ],
 "checks": [],
 "not_applicable": [],
 "notes": "One driver: ./check <Cxx> --tier quick|thorough. Exit 2 = machinery failure (inconclusive), never reported as a violation. known_findings.json lists open/fixed findings.",
}
for p in props:
    pid = p["id"]
    if pid in CHECKS:
        c = CHECKS[pid]
        m["checks"].append({
          "property_id": pid,
          "quick_cmd": "./check %s --tier quick" % pid,
          "thorough_cmd": "./check %s --tier thorough" % pid,
          "evidence_file": "/verif/evidence/%s.json" % pid,
          "replay_cmd_template": "./check %s --replay {path}" % pid,
          "engine": "tlc+jetharness",
          "level_claimed": {"category": c.get("category", "model_checking"), "text": c["text"], "design_ref": c["design_ref"]},
          "level_note": c["note"],
          "technique": c["technique"],
        })
    else:
        m["not_applicable"].append({"property_id": pid, "reason": "not claimed yet: the TLA+ module and conformance harness for this property are not built in the committed state (planned, DESIGN.md §5 %s)" % pid})
json.dump(m, open(os.path.join(V, "MANIFEST.json"), "w"), indent=1)
print("MANIFEST.json:", len(m["checks"]), "checks,", len(m["not_applicable"]), "not_applicable")

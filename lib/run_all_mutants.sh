#!/bin/bash
# runs every seeded mutant against the check of the property it breaks (5 at a time); writes /verif/seeded/RESULTS.txt
OUT=/verif/seeded/RESULTS.txt
T=$(mktemp -d /tmp/mutres-XXXX)
one() {
  d=$1; T=$2
  m=$(basename $d); p=${m%-*}
  r=$(/verif/lib/try_mutant.sh $d $p 2>&1)
  conf=$(echo "$r" | grep -c "MUTANT-NOT-CONFIRMED\|PATCH-DOES-NOT-APPLY")
  line=$(echo "$r" | grep "^check $p rc=")
  echo "$m | confirmed=$((1-conf)) | ${line:-not run} | $(echo "$r" | grep "^demo on" | head -1)" > $T/$m
}
export -f one
# with arguments: only those mutants (the others keep the line they have in RESULTS.txt)
if [ $# -gt 0 ]; then LIST="$@"; else LIST=$(ls -d /verif/seeded/C*-*); fi
echo $LIST | tr ' ' '\n' | xargs -P 5 -I{} bash -c 'one {} '$T
if [ $# -gt 0 ] && [ -f $OUT ]; then
  for f in $T/*; do m=$(basename $f); grep -v "^$m |" $OUT > $OUT.tmp; mv $OUT.tmp $OUT; done
  cat $OUT $T/* | sort -t- -k1,1 -k2,2n > $OUT.tmp; mv $OUT.tmp $OUT
else
  cat $(ls $T/* | sort) > $OUT
fi
rm -rf $T

#!/bin/bash
# runs every seeded mutant against the check of the property it breaks; writes /verif/seeded/RESULTS.txt
OUT=/verif/seeded/RESULTS.txt
: > $OUT.tmp
for d in /verif/seeded/C*-*; do
  m=$(basename $d); p=${m%-*}
  r=$(/verif/lib/try_mutant.sh $d $p 2>&1)
  conf=$(echo "$r" | grep -c "MUTANT-NOT-CONFIRMED\|PATCH-DOES-NOT-APPLY")
  line=$(echo "$r" | grep "^check $p rc=")
  echo "$m | confirmed=$((1-conf)) | ${line:-not run} | $(echo "$r" | grep "^demo on" | head -1)" >> $OUT.tmp
done
mv $OUT.tmp $OUT

#!/bin/bash
# runs every seeded mutant against the check of the property it breaks (5 at a time); writes /verif/seeded/RESULTS.txt
OUT=/verif/seeded/RESULTS.txt
T=$(mktemp -d /tmp/mutres-XXXX)
one() {
  d=$1; T=$2
  m=$(basename $d); p=${m%-*}
  r=$(/verif/lib/try_mutant.sh $d $p 2>&1)
  conf=$(echo "$r" | grep -c "MUTANT-NOT-CONFIRMED\|PATCH-DOES-NOT-APPLY")
  line=$(echo "$r" | grep "^check $p rc=")
  echo "$m | confirmed=$((1-conf)) | ${line:-not run} | $(echo "$r" | grep "^demo on" | head -1)" > $T/$m
}
export -f one
ls -d /verif/seeded/C*-* | xargs -P 5 -I{} bash -c 'one {} '$T
cat $(ls $T/* | sort) > $OUT
rm -rf $T

#!/bin/bash
# usage: try_mutant.sh <mutant-dir> <prop> [tier]   (mutant-dir has patch.diff + demo_test.go)
# 1. confirms the mutant in a scratch worktree (suite green with it, demo fails with it, demo passes without)
# 2. applies it to /repo, runs ./check <prop>, reverts /repo.
set -u
export GOFLAGS=-mod=mod GOPROXY=off GOSUMDB=off GOTOOLCHAIN=local
D=$1; P=$2; TIER=${3:-quick}
WT=$(mktemp -d /tmp/mutwt-XXXX); rmdir $WT
git -C /repo worktree add -q --detach $WT HEAD || exit 3
cleanup() { git -C /repo worktree remove --force $WT 2>/dev/null; git -C /repo checkout -q -- . ; }
trap cleanup EXIT
DEMO=$(ls $D/*_test.go | head -1)
DEMODIR=$(python3 -c "import json,sys; print(json.load(open('$D/agent_meta.json')).get('demo_dir','.'))" 2>/dev/null); DEMODIR=${DEMODIR:-.}
cp $DEMO $WT/$DEMODIR/zz_demo_test.go
( cd $WT/$DEMODIR && go test -count=1 -run . . >/tmp/mut_demo_clean.log 2>&1 ); CLEAN=$?
if ! git -C $WT apply $D/patch.diff 2>/tmp/mut_apply.log; then
  if ! git -C $WT apply -3 $D/patch.diff 2>>/tmp/mut_apply.log; then echo "PATCH-DOES-NOT-APPLY"; cat /tmp/mut_apply.log; exit 3; fi
fi
( cd $WT/$DEMODIR && go test -count=1 -run . . >/tmp/mut_demo_mut.log 2>&1 ); MUT=$?
rm $WT/$DEMODIR/zz_demo_test.go
( cd $WT && go test -count=1 ./... >/tmp/mut_suite.log 2>&1 ); SUITE=$?
echo "demo on clean tree: rc=$CLEAN (want 0); demo with mutant: rc=$MUT (want !=0); suite with mutant: rc=$SUITE (want 0)"
( cd $WT && git diff HEAD > /tmp/mut_current.diff )
if [ $CLEAN -ne 0 ] || [ $MUT -eq 0 ] || [ $SUITE -ne 0 ]; then echo "MUTANT-NOT-CONFIRMED"; exit 4; fi
git -C /repo apply /tmp/mut_current.diff || exit 3
cd /verif && ./check $P --tier $TIER > /tmp/mut_check.log 2>&1; RC=$?
git -C /repo checkout -q -- .
echo "check $P rc=$RC"; grep -c '^VIOLATION' /tmp/mut_check.log; grep -v '^VIOLATION\|signature' /tmp/mut_check.log | tail -8
exit 0

#!/bin/bash
# usage: try_mutant.sh <mutant-dir> <prop> [tier]   (mutant-dir has patch.diff + a *_test.go demo)
# 1. confirms the mutant in a scratch worktree of /repo HEAD (existing suite green with it, demo fails with it,
#    demo passes without it); 2. runs ./check <prop> against that worktree (VERIF_REPO), never touching /repo.
set -u
export GOFLAGS=-mod=mod GOPROXY=off GOSUMDB=off GOTOOLCHAIN=local
D=$1; P=$2; TIER=${3:-quick}
WT=$(mktemp -d /tmp/mutwt-XXXX); rmdir $WT
L=$(mktemp -d /tmp/mutlog-XXXX)
git -C /repo worktree add -q --detach $WT HEAD || exit 3
cleanup() { git -C /repo worktree remove --force $WT 2>/dev/null; rm -rf $L; }
trap cleanup EXIT
DEMO=$(ls $D/*_test.go | head -1)
DEMODIR=$(python3 -c "import json,sys; print(json.load(open('$D/agent_meta.json')).get('demo_dir','.'))" 2>/dev/null); DEMODIR=${DEMODIR:-.}
cp $DEMO $WT/$DEMODIR/zz_demo_test.go
( cd $WT/$DEMODIR && go test -count=1 -run . . >$L/demo_clean.log 2>&1 ); CLEAN=$?
if ! git -C $WT apply $D/patch.diff 2>$L/apply.log; then
  if ! git -C $WT apply -3 $D/patch.diff 2>>$L/apply.log; then echo "PATCH-DOES-NOT-APPLY"; cat $L/apply.log; exit 3; fi
fi
( cd $WT/$DEMODIR && go test -count=1 -run . . >$L/demo_mut.log 2>&1 ); MUT=$?
rm $WT/$DEMODIR/zz_demo_test.go
( cd $WT && go test -count=1 ./... >$L/suite.log 2>&1 ); SUITE=$?
echo "demo on clean tree: rc=$CLEAN (want 0); demo with mutant: rc=$MUT (want !=0); suite with mutant: rc=$SUITE (want 0)"
if [ $CLEAN -ne 0 ] || [ $MUT -eq 0 ] || [ $SUITE -ne 0 ]; then echo "MUTANT-NOT-CONFIRMED"; exit 4; fi
cd /verif && VERIF_REPO=$WT VERIF_NO_EVIDENCE=1 ./check $P --tier $TIER > $L/check.log 2>&1; RC=$?
echo "check $P rc=$RC violations=$(grep -c '^VIOLATION' $L/check.log)"; grep -v '^VIOLATION\|signature' $L/check.log | tail -4
exit 0

#!/usr/bin/env python3
"""Renders DESIGN.md from lib/DESIGN.tmpl.md, known_findings.json, evidence/*.json and seeded/RESULTS.txt."""
import json, os, re, glob
V = os.path.dirname(os.path.dirname(os.path.abspath(__file__)))
t = open(os.path.join(V, "lib", "DESIGN.tmpl.md")).read()
f = json.load(open(os.path.join(V, "known_findings.json")))
fixed = [x for x in f if x["status"] == "fixed"]
rows = ["| id | property | commit | what failed |", "|---|---|---|---|"]
for x in sorted(fixed, key=lambda x: (x["property"], x["id"])):
    what = re.sub(r"^fixed: property=\S+ \S+ ", "", x["what"]).replace("|", "\\|")
    rows.append("| %s | %s | `%s` | %s |" % (x["id"], x["property"], x.get("commit", ""), what))
t = t.replace("{{FINDINGS}}", "\n".join(rows)).replace("{{NFIXED}}", str(len(fixed)))
# measured
rows = ["| property | states | transitions | vectors | traces | distinct non-trivial | wall s (quick) |", "|---|---|---|---|---|---|---|"]
for p in sorted(glob.glob(os.path.join(V, "evidence", "C*.json"))):
    e = json.load(open(p)); c = e["coverage"]
    rows.append("| %s | %d | %d | %d | %d | %d | %.0f |" % (e["property_id"], c["states"], c["transitions"], c["evaluations"],
                c["traces_validated_against_impl"], c["distinct_nontrivial"], e["wall_s"]))
t = t.replace("{{MEASURED}}", "\n".join(rows))
# mutants
rows = ["| change | breaks | what it needs | confirmed on the repaired tree | check result |", "|---|---|---|---|---|"]
ncaught = nvalid = 0
res = {}
rp = os.path.join(V, "seeded", "RESULTS.txt")
if os.path.exists(rp):
    for line in open(rp):
        parts = [x.strip() for x in line.split("|")]
        if len(parts) >= 3:
            res[parts[0]] = parts
for d in sorted(glob.glob(os.path.join(V, "seeded", "C*-*"))):
    m = os.path.basename(d)
    meta = {}
    mp = os.path.join(d, "meta.json")
    if os.path.exists(mp):
        meta = json.load(open(mp))
    r = res.get(m, [m, "?", "not run"])
    confirmed = "confirmed=1" in r[1]
    caught = "rc=1" in r[2]
    if confirmed:
        nvalid += 1
        ncaught += 1 if caught else 0
    status = ("caught (%s)" % r[2].replace("check ", "")) if (confirmed and caught) else ("**missed**" if confirmed else meta.get("not_counted", "neutralised by a repair / not applicable"))
    rows.append("| %s | %s | %s | %s | %s |" % (m, meta.get("property", m.split("-")[0]), meta.get("needs", "").replace("|", "\\|"),
                                                "yes" if confirmed else "no", status))
t = t.replace("{{MUTANTS}}", "\n".join(rows)).replace("{{NCAUGHT}}", str(ncaught)).replace("{{NVALID}}", str(nvalid))
open(os.path.join(V, "DESIGN.md"), "w").write(t)
print("DESIGN.md written: %d fixed findings, %d/%d seeded changes caught" % (len(fixed), ncaught, nvalid))

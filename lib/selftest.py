#!/usr/bin/env python3
"""Demonstrates the binding of Trace_Exec to the code (development aid, not a registered check):
a recorded trace is accepted; the same trace with one corrupted field, or with one hook's events removed, is rejected."""
import sys, json, os
sys.path.insert(0, os.path.dirname(os.path.abspath(__file__)))
import common, exectrace
wd = common.spec_scratch()
exe = common.build_harness()
ev = os.path.join(wd, "ev.ndjson")
common.run_harness(exe, ["record-exec", "7", "200", "4"], env={"VERIF_TRACE": ev})
def run(path, label):
    rep = common.Report("SELFTEST", "quick", 1)
    exectrace.validate(rep, wd, path, label)
    return len(rep.violations), rep.traces
print("clean trace: rejected events = %d, executions accepted = %d" % run(ev, "clean"))
lines = open(ev).read().split("\n")
for i, l in enumerate(lines):
    if '"ev":"range.end"' in l:
        e = json.loads(l); e["ctx"] = "string:CORRUPTED"; lines[i] = json.dumps(e); break
open(ev + ".bad", "w").write("\n".join(lines))
print("one corrupted context digest at range.end: rejected events = %d" % run(ev + ".bad", "corrupted")[0])
open(ev + ".drop", "w").write("\n".join(l for l in open(ev).read().split("\n") if '"ev":"if.end"' not in l))
print("if.end hook removed: rejected events = %d" % run(ev + ".drop", "dropped")[0])

# ---- the same demonstration for the lexer/parser protocol (Trace_LexProc)
sys.path.insert(0, os.path.join(os.path.dirname(os.path.abspath(__file__)), "props"))
import c02, shutil
def proto(lines, label):
    d = os.path.join(wd, "lt-" + label)
    os.makedirs(d)
    open(os.path.join(d, "lex.1.ndjson"), "w").write("\n".join(json.dumps(x) for x in lines) + "\n")
    rep = common.Report("SELFTEST", "quick", 1)
    c02.validate_protocol(rep, wd, d)
    return len(rep.violations)
ok = {"p": [{"ev": "recv", "typ": 14}, {"ev": "recv", "typ": 5}, {"ev": "ok"}], "closed": True, "src": "x", "cfg": "A"}
err = {"p": [{"ev": "recv", "typ": 8}, {"ev": "error"}, {"ev": "drainrecv"}, {"ev": "drainrecv"}, {"ev": "drained"}], "closed": True, "src": "{{", "cfg": "A"}
print("protocol, two real shapes: rejected = %d" % proto([ok, err], "clean"))
leak = dict(err, p=err["p"][:2], closed=False)
print("protocol, parser returns after an error without draining (lexer never closes): rejected = %d" % proto([ok, leak], "nodrain"))
early = dict(ok, p=[{"ev": "recv", "typ": 14}, {"ev": "ok"}])
print("protocol, parse.ok before EOF was received: rejected = %d" % proto([early, ok], "early"))
ign = dict(ok, p=[{"ev": "recv", "typ": 0}, {"ev": "ok"}])
print("protocol, error item ignored: rejected = %d" % proto([ok, ign], "ignored"))

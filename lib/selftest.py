#!/usr/bin/env python3
"""Demonstrates the binding of Trace_Exec to the code (development aid, not a registered check):
a recorded trace is accepted; the same trace with one corrupted field, or with one hook's events removed, is rejected."""
import sys, json, os
sys.path.insert(0, os.path.dirname(os.path.abspath(__file__)))
import common, exectrace
wd = common.spec_scratch()
exe = common.build_harness()
ev = os.path.join(wd, "ev.ndjson")
common.run_harness(exe, ["record-exec", "7", "200", "4"], env={"VERIF_TRACE": ev})
def run(path, label):
    rep = common.Report("SELFTEST", "quick", 1)
    exectrace.validate(rep, wd, path, label)
    return len(rep.violations), rep.traces
print("clean trace: rejected events = %d, executions accepted = %d" % run(ev, "clean"))
lines = open(ev).read().split("\n")
for i, l in enumerate(lines):
    if '"ev":"range.end"' in l:
        e = json.loads(l); e["ctx"] = "string:CORRUPTED"; lines[i] = json.dumps(e); break
open(ev + ".bad", "w").write("\n".join(lines))
print("one corrupted context digest at range.end: rejected events = %d" % run(ev + ".bad", "corrupted")[0])
open(ev + ".drop", "w").write("\n".join(l for l in open(ev).read().split("\n") if '"ev":"if.end"' not in l))
print("if.end hook removed: rejected events = %d" % run(ev + ".drop", "dropped")[0])

"""code -> spec for the interpreter family: events recorded by the `verif` hooks are regrouped per Runtime and
validated by TLC against spec/Trace_Exec.tla."""
import json, os, subprocess
from common import *

def normalise(events_file, out_file, max_execs=None):
    """group by Runtime id, keep order, drop events without a Runtime (raise), cut into executions"""
    per = {}
    with open(events_file) as f:
        for line in f:
            if not line.strip():
                continue
            e = json.loads(line)
            if not e.get("rt"):
                continue
            per.setdefault(e["rt"], []).append(e)
    n_exec = 0
    with open(out_file, "w") as g:
        for rt in sorted(per):
            evs = sorted(per[rt], key=lambda e: e["seq"])
            # start at the first exec.found
            k = 0
            while k < len(evs) and evs[k]["ev"] != "exec.found":
                k += 1
            cur = []
            def flush(cur):
                nonlocal n_exec
                if cur and cur[-1]["ev"] == "exec.end" and (max_execs is None or n_exec < max_execs):
                    for e in cur:
                        a = e.get("args") or []
                        g.write(json.dumps({"ev": e["ev"], "depth": e["depth"], "ctx": e["ctx"], "content": bool(e["content"]),
                                            "writer": e["writer"], "outlen": e["outlen"],
                                            "normal": bool(a[0]) if e["ev"] == "list.end" and a else True}) + "\n")
                    n_exec += 1
            for e in evs[k:]:
                if e["ev"] == "exec.found":
                    flush(cur)
                    cur = []
                cur.append(e)
            flush(cur)
    return n_exec

def validate(rep, wd, events_file, label, max_execs=None):
    tr = os.path.join(wd, "trace_exec.ndjson")
    n = normalise(events_file, tr, max_execs)
    if n == 0:
        raise Inconclusive("%s: the hooks produced no complete execution trace (is the harness built with -tags verif?)" % label)
    def sigfn(ev, lines, k):
        j = k
        while j > 0 and json.loads(lines[j]).get("ev") != "exec.found":
            j -= 1
        pre = [json.loads(x) for x in lines[j:k + 1]]
        return ({"kind": "trace", "ev": ev.get("ev"), "writer": ev.get("writer")},
                {"rejected_event": ev, "execution_up_to_rejected_event": pre[-60:],
                 "detail": "recorded interpreter event is not a behaviour of Trace_Exec (state projection not restored / "
                           "output while buffered / Runtime not clean)"})
    count = lambda lines: sum(1 for x in lines if '"ev": "exec.found"' in x)
    total, rejected = validate_trace(rep, wd, "Trace_Exec.tla", "Trace_Exec.cfg", tr, sigfn, label, heap="6g", timeout=1800,
                                     count_traces=count, max_rejects=10)
    return n

def record_repo_tests(wd):
    """the repository's own test-suite as a trace source (go test -tags verif with VERIF_TRACE_FILE)"""
    out = os.path.join(wd, "repo_events.ndjson")
    p = subprocess.run(["go", "test", "-tags", "verif", "-count=1", "-vet=off", "."], cwd=REPO, env=dict(GOENV, VERIF_TRACE_FILE=out),
                       stdout=subprocess.PIPE, stderr=subprocess.STDOUT, text=True)
    if p.returncode != 0 or not os.path.exists(out):
        raise Inconclusive("go test -tags verif failed in %s:\n%s" % (REPO, p.stdout[-1500:]))
    return out

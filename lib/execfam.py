"""Shared driver for the properties decided on the interpreter model (spec/JetExec.tla):
TLC enumerates a family of programs (Gen_Cxx.tla), model-checks the discipline properties on every
execution, prints one vector per terminated behaviour; the Go harness concretises each abstract
program into Jet source + data, executes it on the real library and compares output and error."""
import json, os
from common import *

BASE = dict(FixTry="TRUE", FixPool="TRUE", RetKeep="TRUE", ExecFull="TRUE", FixIsSet="TRUE", AnyFail="FALSE")

def write_cfg(wd, name, consts, subst, invariants, properties, emit=True):
    lines = ["SPECIFICATION Spec", "CONSTANTS", "  Params <- cParams", "  MkCase <- MkC", "  Names <- cNames"]
    for k, v in consts.items():
        lines.append("  %s = %s" % (k, v))
    for k, v in subst.items():
        lines.append("  %s <- %s" % (k, v))
    inv = list(invariants) + (["EmitVec"] if emit else [])
    lines.append("INVARIANTS " + " ".join(inv))
    if properties:
        lines.append("PROPERTIES " + " ".join(properties))
    lines.append("CHECK_DEADLOCK FALSE")
    open(os.path.join(wd, name), "w").write("\n".join(lines) + "\n")

INV = ["TypeOK", "StartsClean"]
PROPS = ["ConstructRestores", "TryRestoresState", "IsSetRestoresState", "AppendOnly"]

def gen_and_replay(rep, wd, exe, module, label, consts, subst, workers=12, heap="8g", timeout=3000,
                   replay_cmd="replay-exec", extra_inv=(), sample_at=(3, 777), simulate=None, depth=None, seed=None,
                   trace_execs=400, shards=4):
    c = dict(BASE)
    c.update(consts)
    cfg = "gen_%s.cfg" % label
    write_cfg(wd, cfg, c, subst, INV + list(extra_inv), PROPS)
    vec = os.path.join(wd, "vec_%s.ndjson" % label)
    with open(vec, "w") as sink:
        r = run_tlc(wd, module, cfg, workers=workers, heap=heap, timeout=timeout, keep_vecs=False,
                    vec_sink=sink, deque=True, simulate=simulate, depth=depth, seed=seed)
    need_ok(r, label)
    rep.add_tlc(r, label)
    with open(vec) as f:
        for i, line in enumerate(f):
            if i in sample_at:
                v = json.loads(line)
                rep.sample({"tag": v.get("tag"), "entry_source_abstract": v["case"]["ts"][0], "expected": v["results"]}, limit=3)
    # code -> spec: the first `trace_execs` vectors are replayed once more with the hooks' tracer on and the
    # recorded event stream is validated by TLC against Trace_Exec.tla
    n, bad = replay_vectors(rep, exe, replay_cmd, vec, shards=shards)
    if trace_execs and replay_cmd == "replay-exec":
        import exectrace
        sub = vec + ".tr"
        with open(vec) as f, open(sub, "w") as g:
            for i, line in enumerate(f):
                if i % max(1, (n // trace_execs)) == 0:
                    g.write(line)
        ev = os.path.join(wd, "events_%s.ndjson" % label)
        p = run_harness(exe, [replay_cmd, sub, sub + ".res"], env={"VERIF_TRACE": ev}, timeout=1800)
        if p.returncode != 0:
            raise Inconclusive("traced replay failed: " + (p.stderr or p.stdout)[-1000:])
        exectrace.validate(rep, wd, ev, "Trace_Exec_" + label)
    return n, bad

def mc_any_failure(rep, wd, module, label, consts, subst):
    """design level only: an error may be raised before ANY step of ANY program of the family (Inject action);
    the discipline properties must hold in every state of every such behaviour."""
    c = dict(BASE)
    c.update(consts)
    c["AnyFail"] = "TRUE"
    cfg = "anyfail_%s.cfg" % label
    write_cfg(wd, cfg, c, subst, INV, PROPS, emit=False)
    r = run_tlc(wd, module, cfg, workers=12, heap="8g", timeout=3000, keep_vecs=False, deque=True)
    need_ok(r, label + " (failure at any step)")
    rep.add_tlc(r, label + "_anyfail")

def repo_suite_traces(rep, wd):
    """the repository's own tests, run with the hooks on, as a trace source (code -> spec)"""
    import exectrace
    ev = exectrace.record_repo_tests(wd)
    n = exectrace.validate(rep, wd, ev, "Trace_Exec_repo_tests")
    rep.notes.append("repository test-suite traced with -tags verif: %d executions validated by Trace_Exec" % n)

def random_program_traces(rep, wd, exe, seed, n, depth):
    """seeded random programs, deeper and wider than the model-checked families, traced and validated (code -> spec)"""
    import exectrace
    ev = os.path.join(wd, "events_random.ndjson")
    p = run_harness(exe, ["record-exec", str(seed), str(n), str(depth)], env={"VERIF_TRACE": ev}, timeout=1800)
    out = (p.stdout or "") + (p.stderr or "")
    if "RANDOM-PROGRAM-PANIC" in out:
        rep.violation({"kind": "panic", "tag": "random-program"}, {"detail": out[:3000], "replay_cmd": "record-exec %d %d %d" % (seed, n, depth)})
        return
    if p.returncode != 0:
        raise Inconclusive("record-exec failed: " + out[-1000:])
    k = exectrace.validate(rep, wd, ev, "Trace_Exec_random_programs")
    rep.notes.append("random programs (seed %d, depth %d): %d executions traced and validated" % (seed, depth, k))

def asis_refuted(rep, wd, module, label, consts, subst, expect, workers=8):
    """Design-level record of a repaired defect: the as-implemented variant must be refuted by TLC."""
    c = dict(BASE)
    c.update(consts)
    cfg = "asis_%s.cfg" % label
    write_cfg(wd, cfg, c, subst, INV, PROPS, emit=False)
    r = run_tlc(wd, module, cfg, workers=workers, heap="6g", timeout=1200, keep_vecs=False, deque=True)
    if r.violated not in expect:
        raise Inconclusive("as-implemented variant %s expected to violate %s, got violated=%s error=%s"
                           % (label, expect, r.violated, (r.error or "")[:300]))
    rep.notes.append("as-implemented variant %s: %s refuted by TLC as expected" % (label, r.violated))

def replay_one(path, cmd="replay-exec"):
    case = json.load(open(path))["case"]
    exe = build_harness()
    wd = scratch()
    v = os.path.join(wd, "v.ndjson")
    open(v, "w").write(json.dumps(case["vector"]) + "\n")
    run_harness(exe, [case.get("replay_cmd", cmd), v, v + ".res"])
    r = json.loads(open(v + ".res").readline())
    print(json.dumps(r, indent=1)[:6000])
    return 0 if r["ok"] else 1

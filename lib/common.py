"""Shared machinery for the ./check driver: scratch dirs, TLC runs, Go harness
builds, evidence files, known findings.  No Jet semantics lives here."""
import json, os, re, shutil, subprocess, sys, tempfile, time, atexit, hashlib

VERIF = os.path.dirname(os.path.dirname(os.path.abspath(__file__)))
REPO = os.environ.get("VERIF_REPO", "/repo")
SPEC = os.path.join(VERIF, "spec")
HARNESS = os.path.join(VERIF, "harness")
TLA_CP = "/opt/veriftools/tla/tla2tools.jar:/opt/veriftools/tla/CommunityModules-deps.jar"

GOENV = dict(os.environ, GOFLAGS="-mod=mod", GOPROXY="off", GOSUMDB="off",
             GOTOOLCHAIN="local", CGO_ENABLED=os.environ.get("CGO_ENABLED", "1"))

_scratch = []


class Inconclusive(Exception):
    """Machinery failure (TLC error, timeout, build failure): exit 2, never a VIOLATION."""


def scratch(prefix="jv-"):
    d = tempfile.mkdtemp(prefix=prefix)
    _scratch.append(d)
    return d


@atexit.register
def _cleanup():
    if os.environ.get("VERIF_KEEP"):
        return
    for d in _scratch:
        shutil.rmtree(d, ignore_errors=True)


def spec_scratch():
    d = scratch("jv-spec-")
    for f in os.listdir(SPEC):
        if f.endswith((".tla", ".cfg")):
            shutil.copy(os.path.join(SPEC, f), d)
    return d


class TLCResult:
    def __init__(self):
        self.generated = 0
        self.distinct = 0
        self.depth = 0
        self.vecs = []
        self.ok = False
        self.violated = None     # name of violated invariant / property
        self.error = None        # TLC-level error text (not a property violation)
        self.out = ""
        self.wall = 0.0
        self.cmd = ""
        self.coverage_zero = []


_VEC = re.compile(r'^<<"VEC", "(.*)">>$')


def parse_vec_line(line):
    m = _VEC.match(line)
    if not m:
        return None
    return json.loads(json.loads('"' + m.group(1) + '"'))


def run_tlc(wd, module, cfg, workers=4, heap="2g", timeout=600, simulate=None, depth=None,
            seed=None, fpset_small=True, keep_vecs=True, vec_sink=None, extra=None,
            deque=False, coverage=False):
    """Run TLC in scratch dir `wd`. Returns TLCResult. VEC lines are parsed (or streamed to
    vec_sink, a file object receiving one JSON document per line)."""
    meta = tempfile.mkdtemp(prefix="meta-", dir=wd)
    java = ["java", "-Xmx" + heap, "-Xss64m", "-XX:+UseParallelGC", "-XX:ParallelGCThreads=4"]
    if fpset_small and not deque:
        java.append("-Dtlc2.tool.fp.FPSet.impl=tlc2.tool.fp.MSBDiskFPSet")
    if deque:
        java.append("-Dtlc2.tool.queue.IStateQueue=StateDeque")
    cmd = java + ["-cp", TLA_CP, "tlc2.TLC", "-workers", str(workers), "-metadir", meta,
                  "-config", cfg]
    if simulate:
        cmd += ["-simulate", simulate]
        if depth:
            cmd += ["-depth", str(depth)]
    if seed is not None:
        cmd += ["-seed", str(seed)]
    if coverage:
        cmd += ["-coverage", "1"]
    if extra:
        cmd += extra
    cmd.append(module)
    r = TLCResult()
    r.cmd = " ".join(cmd[cmd.index("tlc2.TLC"):])
    t0 = time.time()
    tail = []
    keep = []
    try:
        p = subprocess.Popen(["timeout", str(timeout)] + cmd, cwd=wd, stdout=subprocess.PIPE,
                             stderr=subprocess.STDOUT, text=True, errors="replace")
        for line in p.stdout:
            line = line.rstrip("\n")
            if line.startswith('<<"VEC"'):
                v = parse_vec_line(line)
                if v is not None:
                    if vec_sink is not None:
                        vec_sink.write(json.dumps(v) + "\n")
                    if keep_vecs:
                        r.vecs.append(v)
                    r.nvecs = getattr(r, "nvecs", 0) + 1
                    continue
            if line.startswith("Error:") or "is violated" in line or "Deadlock reached" in line or "states generated" in line \
                    or "depth of the complete" in line or "TRACE-REJECTED-AFTER" in line or "is false" in line:
                keep.append(line)
            tail.append(line)
            if len(tail) > 4000:
                del tail[:2000]
        rc = p.wait()
    finally:
        shutil.rmtree(meta, ignore_errors=True)
    r.wall = time.time() - t0
    out = "\n".join(keep[:200] + ["---- tail ----"] + tail)
    r.out = out
    if not hasattr(r, "nvecs"):
        r.nvecs = 0
    m = re.search(r"(\d+) states generated, (\d+) distinct states found", out)
    if m:
        r.generated, r.distinct = int(m.group(1)), int(m.group(2))
    m = re.search(r"depth of the complete state graph search is (\d+)", out)
    if m:
        r.depth = int(m.group(1))
    if rc == 124:
        if simulate:
            # simulation runs are bounded by the outer timeout by design
            r.ok = True
            return r
        r.error = "timeout after %ss" % timeout
        return r
    m = re.search(r"Invariant (\S+) is violated", out)
    if m:
        r.violated = m.group(1)
    m2 = re.search(r"(Action|Temporal) propert(y|ies).* (was|were) violated", out)
    if m2 and not r.violated:
        r.violated = "temporal"
    m3 = re.search(r"Action property (\S+) is violated", out)
    if m3:
        r.violated = m3.group(1)
    if "Postcondition" in out and "is false" in out and not r.violated:
        r.violated = "postcondition"
    if "Deadlock reached" in out and not r.violated:
        r.violated = "deadlock"
    if r.violated:
        return r
    if ("Model checking completed. No error has been found" in out
            or (simulate and rc in (0,)) or "Finished in" in out and "Error:" not in out):
        r.ok = True
    else:
        r.error = "TLC failed (rc=%d): %s" % (rc, out[-1500:])
    if coverage:
        r.coverage_zero = [l for l in out.split("\n") if re.search(r": 0:0$|: 0$", l)]
    return r


def need_ok(r, what):
    if r.error:
        raise Inconclusive("%s: %s" % (what, r.error))
    if r.violated:
        raise Inconclusive("%s: specification-level violation of %s (design model, no real-code "
                           "evidence)\n%s" % (what, r.violated, r.out[-3000:]))
    if not r.ok:
        raise Inconclusive("%s: TLC did not finish cleanly\n%s" % (what, r.out[-1500:]))


_built = {}


def build_harness(race=False, tags="verif"):
    """Build the Go harness against /repo's *current working tree* (replace directive)."""
    key = (race, tags)
    if key in _built:
        return _built[key]
    outdir = scratch("jv-bin-")
    exe = os.path.join(outdir, "jetharness" + ("-race" if race else ""))
    hdir = HARNESS
    if os.path.realpath(REPO) != "/repo":
        # a scratch copy of the library (mutant trials): build from a private copy of the harness module
        hdir = os.path.join(outdir, "harness")
        shutil.copytree(HARNESS, hdir)
    shutil.copy(os.path.join(REPO, "go.sum"), os.path.join(hdir, "go.sum"))
    gomod = os.path.join(hdir, "go.mod")
    txt = open(gomod).read()
    want = "replace github.com/CloudyKit/jet/v6 => %s" % REPO
    new = re.sub(r"replace github.com/CloudyKit/jet/v6 => \S+", want, txt)
    if new != txt:
        open(gomod, "w").write(new)
    cmd = ["go", "build", "-tags", tags, "-o", exe]
    if race:
        cmd.append("-race")
    cmd.append(".")
    p = subprocess.run(cmd, cwd=hdir, env=GOENV, stdout=subprocess.PIPE, stderr=subprocess.STDOUT,
                       text=True)
    if p.returncode != 0:
        raise Inconclusive("harness build failed against %s:\n%s" % (REPO, p.stdout[-3000:]))
    _built[key] = exe
    return exe


def run_harness(exe, args, timeout=900, env=None, stdin=None):
    e = dict(GOENV)
    if env:
        e.update(env)
    p = subprocess.run(["timeout", str(timeout), exe] + args, env=e, stdout=subprocess.PIPE,
                       stderr=subprocess.PIPE, text=True, errors="replace", input=stdin)
    return p


def read_ndjson(path):
    out = []
    with open(path) as f:
        for line in f:
            line = line.strip()
            if line:
                out.append(json.loads(line))
    return out


# ------------------------------------------------------------------ findings

def load_findings():
    p = os.path.join(VERIF, "known_findings.json")
    if not os.path.exists(p):
        return []
    return json.load(open(p))


def match_finding(prop, sig, findings):
    """sig: dict describing the abstract failing case. An open finding matches when every
    key of its 'match' dict equals the signature's value (lists = any-of)."""
    for f in findings:
        if f.get("property") != prop or f.get("status") != "open":
            continue
        ok = True
        for k, v in f.get("match", {}).items():
            sv = sig.get(k)
            if isinstance(v, list):
                if sv not in v:
                    ok = False
            elif sv != v:
                ok = False
        if ok:
            return f
    return None


# ------------------------------------------------------------------ evidence

class Report:
    def __init__(self, prop, tier, seed):
        self.prop, self.tier, self.seed = prop, tier, seed
        self.t0 = time.time()
        self.states = 0
        self.transitions = 0
        self.traces = 0
        self.evaluations = 0
        self.nontrivial = set()
        self.samples = []
        self.cmds = []
        self.notes = []
        self.assumptions = []
        self.violations = []     # (sig, replay dict)
        self.known = {}          # finding id -> count
        self.rule = ""
        self.exhaustive = False
        self.extra = {}
        self.findings = load_findings()

    def add_tlc(self, r, label):
        self.states += r.distinct
        self.transitions += r.generated
        self.cmds.append("%s: %s" % (label, r.cmd))
        self.notes.append("%s: %d states generated, %d distinct, %.1fs" % (label, r.generated, r.distinct, r.wall))

    def sample(self, s, limit=4):
        if len(self.samples) < limit:
            self.samples.append(s)

    def nontriv(self, key):
        if not isinstance(key, str):
            key = json.dumps(key, sort_keys=True)
        self.nontrivial.add(hashlib.sha1(key.encode()).hexdigest()[:16])

    def violation(self, sig, replay):
        f = match_finding(self.prop, sig, self.findings)
        if f:
            self.known[f["id"]] = self.known.get(f["id"], 0) + 1
            return False
        self.violations.append((sig, replay))
        return True

    def finish(self):
        wall = time.time() - self.t0
        for fid, n in sorted(self.known.items()):
            f = [x for x in self.findings if x["id"] == fid][0]
            print("KNOWN-FINDING: property=%s %s [%s] (%d case(s) this run)" % (self.prop, f["what"], fid, n))
        rc = 0
        paths = []
        import glob
        rdir = os.path.join(VERIF, "replays") if not os.environ.get("VERIF_NO_EVIDENCE") else scratch("jv-replays-")
        for old in glob.glob(os.path.join(rdir, "%s-%s-*.json" % (self.prop, self.tier))):
            os.unlink(old)
        if self.violations:
            groups = {}
            for sig, _ in self.violations:
                k = json.dumps(sig, sort_keys=True)
                groups[k] = groups.get(k, 0) + 1
            print("violation classes (%d):" % len(groups))
            for k, n in sorted(groups.items(), key=lambda x: -x[1])[:int(os.environ.get('VERIF_MAXCLASSES', '40'))]:
                print("  %6d  %s" % (n, k[:300]))
            os.makedirs(rdir, exist_ok=True)
            for i, (sig, replay) in enumerate(self.violations[:int(os.environ.get('VERIF_MAXREPLAY', '5'))]):
                p = os.path.join(rdir, "%s-%s-%d.json" % (self.prop, self.tier, i))
                json.dump({"property": self.prop, "sig": sig, "case": replay}, open(p, "w"), indent=1)
                paths.append(p)
                print("VIOLATION property=%s replay=%s" % (self.prop, p))
                print("  signature: %s" % json.dumps(sig, sort_keys=True)[:600])
            rc = 1
        cov = {
            "states": self.states, "transitions": self.transitions,
            "traces_validated_against_impl": self.traces,
            "evaluations": self.evaluations,
            "distinct_nontrivial": len(self.nontrivial),
            "rule": self.rule,
            "samples": self.samples or ["(none)"],
            "checker_cmd": " ; ".join(self.cmds)[:4000],
            "explanation": " | ".join(self.notes)[:6000],
            "exhaustive": self.exhaustive,
            "known_findings_hit": self.known,
        }
        cov.update(self.extra)
        ev = {"property_id": self.prop, "tier": self.tier, "seed": self.seed,
              "level": "model_checking", "coverage": cov,
              "assumptions": self.assumptions, "wall_s": round(wall, 2),
              "violations": len(self.violations)}
        if not os.environ.get("VERIF_NO_EVIDENCE"):
            os.makedirs(os.path.join(VERIF, "evidence"), exist_ok=True)
            json.dump(ev, open(os.path.join(VERIF, "evidence", self.prop + ".json"), "w"), indent=1)
        print("%s %s: states=%d transitions=%d vectors=%d traces=%d nontrivial=%d violations=%d known=%d wall=%.1fs"
              % (self.prop, self.tier, self.states, self.transitions, self.evaluations, self.traces,
                 len(self.nontrivial), len(self.violations), sum(self.known.values()), wall))
        return rc


# ------------------------------------------------------------------ generic stages

def replay_vectors(rep, exe, cmd, vec_file, extra_args=None, timeout=1800, sample_from=None, shards=1, env=None):
    """spec -> code: run the harness over a vector file; tally results into the report.
    shards > 1 splits the vectors over that many harness processes (independent vectors only)."""
    files = [vec_file]
    if shards > 1:
        outs = [open("%s.s%d" % (vec_file, k), "w") for k in range(shards)]
        with open(vec_file) as f:
            for i, line in enumerate(f):
                outs[i % shards].write(line)
        for o in outs:
            o.close()
        files = [o.name for o in outs]
    procs = []
    for vf in files:
        e = dict(GOENV)
        if env:
            e.update(env)
        procs.append((vf, subprocess.Popen(["timeout", str(timeout), exe, cmd, vf, vf + ".res"] + (extra_args or []),
                                            env=e, stdout=subprocess.PIPE, stderr=subprocess.PIPE, text=True, errors="replace")))
    n = bad = 0
    for vf, p in procs:
        out, err = p.communicate()
        if p.returncode != 0:
            raise Inconclusive("harness %s failed rc=%d: %s" % (cmd, p.returncode, (err or out)[-2000:]))
        with open(vf + ".res") as f:
            for line in f:
                if not line.strip():
                    continue
                r = json.loads(line)
                n += 1
                if r.get("key"):
                    rep.nontriv(r["key"])
                if not r.get("ok"):
                    if not r.get("sig"):
                        raise Inconclusive("harness could not run vector %d: %s" % (r.get("i", -1), r.get("detail")))
                    bad += 1
                    rep.violation(r["sig"], {"replay_cmd": cmd, "vector": r.get("case"), "observed": r.get("observed"),
                                             "expected": r.get("expected"), "detail": r.get("detail")})
        os.unlink(vf + ".res")
    rep.evaluations += n
    return n, bad


_REJ = re.compile(r'"TRACE-REJECTED-AFTER", (\d+)')


def validate_trace(rep, wd, module, cfg, trace_path, sig_fn, label, workers=1, heap="2g", timeout=900,
                   max_rejects=25, count_traces=None, deque=False):
    """code -> spec: TLC validates the NDJSON trace at `trace_path` (already inside wd under the
    name the trace spec reads). On rejection the offending line is reported through sig_fn(event)
    (violation or known finding), removed, and validation continues with the rest."""
    lines = [l for l in open(trace_path).read().split("\n") if l.strip()]
    total = len(lines)
    rejected = 0
    while True:
        if not lines:
            break
        open(trace_path, "w").write("\n".join(lines) + "\n")
        r = run_tlc(wd, module, cfg, workers=workers, heap=heap, timeout=timeout, keep_vecs=False, deque=deque)
        if r.error:
            raise Inconclusive("%s: %s" % (label, r.error))
        if r.violated and r.violated != "postcondition":
            # an invariant of the specification failed on a state reached by the implementation trace
            m = _REJ.search(r.out)
            raise Inconclusive("%s: invariant %s violated while validating trace\n%s" % (label, r.violated, r.out[-2000:]))
        m = _REJ.search(r.out)
        if m is None:
            rep.add_tlc(r, label)
            break
        k = int(m.group(1))          # number of lines matched; line k (0-based) is the rejected one
        if k >= len(lines):
            raise Inconclusive("%s: rejection index out of range" % label)
        ev = json.loads(lines[k])
        sig, case = sig_fn(ev, lines, k)
        rep.violation(sig, case)
        rejected += 1
        del lines[k]
        if rejected >= max_rejects:
            rep.notes.append("%s: stopped after %d rejected events" % (label, rejected))
            break
    accepted = (count_traces(lines) if count_traces else len(lines))
    rep.traces += accepted
    return total, rejected

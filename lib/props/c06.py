"""C06 (access) and C17 (isset) share spec/JetAccess.tla and one replay: C06 decides on the access outcome,
C17 on isset() of the same path (direct, with a second argument, inside if)."""
import json, os
from common import *

def run_both(rep, tier, seed, which):
    wd = spec_scratch()
    exe = build_harness()
    rep.rule = ("every access path of <=2 (quick) / <=3 (thorough) steps over 17 root values of the Go catalogue (struct with "
                "exported/unexported/embedded-struct/embedded-pointer/shadowed fields, value and pointer methods, maps keyed by "
                "string / named string / int, slice, array, string, pointers up to 2 levels, nil pointer, nil map, interface, nil) x "
                "step alphabet {28 member names in a.b and a[\"b\"] syntax, 4 method calls, indexes -1..3, a string index, 6 slice "
                "bound pairs}; outcome = stored leaf text / nil / error; isset of the same path in three forms; paths stop below "
                "an error; non-trivial: every path; distinct by (root, path)")
    cfg = "MC_Access_%s.cfg" % tier
    vec = os.path.join(wd, "acc.ndjson")
    with open(vec, "w") as sink:
        r = run_tlc(wd, "JetAccess.tla", cfg, workers=12, heap="8g", timeout=6000, keep_vecs=False, vec_sink=sink, deque=True)
    need_ok(r, cfg)
    rep.add_tlc(r, cfg)
    with open(vec) as f:
        for i, line in enumerate(f):
            if i in (100, 9000):
                v = json.loads(line)
                if "catalogue" not in v:
                    rep.sample(v)
    res_file = vec + ".res"
    cmd = "replay-C06" if which == "C06" else "replay-C17"    # replay-C17 judges isset only, whatever the access itself does
    p = run_harness(exe, [cmd, vec, res_file], timeout=3000)
    if p.returncode != 0:
        raise Inconclusive("harness %s failed: " % cmd + (p.stderr or p.stdout)[-2000:])
    n = 0
    with open(res_file) as f:
        for line in f:
            r = json.loads(line)
            n += 1
            if r.get("key"):
                rep.nontriv(r["key"])
            if r.get("ok"):
                continue
            if not r.get("sig"):
                raise Inconclusive("harness: " + str(r.get("detail")))
            is_isset = r["sig"]["kind"].startswith("isset")
            if (which == "C17") == is_isset:
                rep.violation(r["sig"], {"replay_cmd": cmd, "vector": r.get("case"), "observed": r.get("observed"),
                                         "expected": r.get("expected"), "detail": r.get("detail")})
            elif which == "C17":
                # the access itself misbehaves (C06's business): isset of this path was not evaluated
                rep.extra["paths_not_evaluated_for_isset"] = rep.extra.get("paths_not_evaluated_for_isset", 0) + 1
    rep.evaluations += n
    rep.exhaustive = True

def run(rep, tier, seed):
    run_both(rep, tier, seed, "C06")

def replay(path):
    case = json.load(open(path))["case"]
    exe = build_harness()
    wd = scratch()
    v = os.path.join(wd, "v.ndjson")
    open(v, "w").write(json.dumps(case["vector"]) + "\n")
    run_harness(exe, [case.get("replay_cmd", "replay-C06"), v, v + ".res"])
    r = json.loads(open(v + ".res").readline())
    print(json.dumps(r, indent=1)[:4000])
    return 0 if r["ok"] else 1

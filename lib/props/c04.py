"""C04: expression precedence, associativity, typing. spec: JetExpr.tla (Unparse with minimal parentheses, Eval on exact rationals)."""
import json, os
from common import *

def run(rep, tier, seed):
    wd = spec_scratch()
    exe = build_harness()
    rep.rule = ("expression trees: shapes {leaf, a o b, (a o1 b) o2 c, a o1 (b o2 c), unary minus left/right/inside, not(...), "
                "not-left, ?:, ?: nested right and left (thorough: three operators)} x all pairs of the 13 binary operators x "
                "leaves drawn from Go int variables, float literals/variables, strings, bools, recording probes, index, call, "
                "field and parenthesised operands; only trees in the property's typed fragment (the specification assigns a "
                "value, no zero divisor) are emitted; each tree is rendered in four surface forms (spaces, no spaces, full "
                "parentheses, keyword spellings); non-trivial: at least one operator; distinct by (shape, operators, leaves). History probe (held values): 24 operator expressions x 4 operand kinds bound to a variable across a recursive yield of their block, and kept by a jet.Func across the iterations of a range, equal the expression evaluated once on its own, in two executions")
    cfgs = ["MC_Expr_b1.cfg", "MC_Expr_quick.cfg"] if tier == "quick" else ["MC_Expr_b1.cfg", "MC_Expr_quick.cfg", "MC_Expr_thorough.cfg"]
    for cfg in cfgs:
        vec = os.path.join(wd, cfg + ".ndjson")
        with open(vec, "w") as sink:
            r = run_tlc(wd, "MC_Expr.tla", cfg, workers=12, heap="8g", timeout=6000, keep_vecs=False, vec_sink=sink, deque=True)
        need_ok(r, cfg)
        rep.add_tlc(r, cfg)
        with open(vec) as f:
            for i, line in enumerate(f):
                if i == 4242:
                    rep.sample(json.loads(line))
        replay_vectors(rep, exe, "replay-C04", vec, timeout=3000, shards=6)
    rep.exhaustive = True

def replay(path):
    case = json.load(open(path))["case"]
    exe = build_harness()
    wd = scratch()
    v = os.path.join(wd, "v.ndjson")
    open(v, "w").write(json.dumps(case["vector"]) + "\n")
    run_harness(exe, ["replay-C04", v, v + ".res"])
    r = json.loads(open(v + ".res").readline())
    print(json.dumps(r, indent=1)[:4000])
    return 0 if r["ok"] else 1

"""C19: bundled loaders. spec: JetLoaderMem.tla, JetLoaderFS.tla, Trace_LoaderMem.tla."""
import json, os
from common import *

def run(rep, tier, seed):
    wd = spec_scratch()
    rep.rule = ("in-memory: every history of <=2 (quick) / <=3 (thorough) Set/Delete over 13 spellings of 5 canonical paths, then "
                "Exists+Open under every spelling; file-system: every stack of <=2 / <=3 loaders over all 33 well-formed trees "
                "(file/dir/nested dir/same name as file in one loader and dir in another), queried at 9 clean absolute paths, "
                "each run with OS, http and alternating loaders (and embed.FS for the fixture tree), multi loader built with "
                "NewLoader+AddLoaders; multi over 2 / 3 in-memory members that are edited between look-ups: every history of <=4 / <=5 "
                "Set/Delete/Exists/Open over two paths (JetMulti); non-trivial: at least one mutation / every stack; distinct by vector. traces: random "
                "InMemLoader histories with spellings of <=5 segments validated by Trace_LoaderMem")
    exe = build_harness()
    for mod, cfg, cmd in (("MC_LoaderMem.tla", "MC_LoaderMem_%s.cfg" % tier, "replay-C19mem"),
                          ("JetLoaderFS.tla", "MC_LoaderFS_%s.cfg" % tier, "replay-C19fs"),
                          ("JetMulti.tla", "MC_Multi_%s.cfg" % tier, "replay-C19multi")):
        vec = os.path.join(wd, cmd + ".ndjson")
        with open(vec, "w") as sink:
            r = run_tlc(wd, mod, cfg, workers=8, heap="4g", timeout=2400, keep_vecs=False, vec_sink=sink)
        need_ok(r, cfg)
        rep.add_tlc(r, cfg)
        with open(vec) as f:
            for i, line in enumerate(f):
                if i == 500:
                    rep.sample(json.loads(line))
        replay_vectors(rep, exe, cmd, vec)
    rep.exhaustive = True
    ntr, ln = (30, 100) if tier == "quick" else (300, 200)
    tr = os.path.join(wd, "trace_mem.ndjson")
    p = run_harness(exe, ["record-C19mem", tr, str(seed), str(ntr), str(ln)])
    if p.returncode != 0:
        raise Inconclusive("record-C19mem failed: " + p.stderr[-1000:])
    def sigfn(ev, lines, k):
        j = k
        while j > 0 and json.loads(lines[j]).get("op") != "init":
            j -= 1
        return ({"loader": "inmem", "kind": "trace", "op": ev.get("op")},
                {"history_up_to_rejected_event": [json.loads(x) for x in lines[j:k + 1]]})
    count = lambda lines: sum(1 for x in lines if '"op":"init"' in x)
    validate_trace(rep, wd, "Trace_LoaderMem.tla", "Trace_LoaderMem.cfg", tr, sigfn, "Trace_LoaderMem", count_traces=count)

def replay(path):
    case = json.load(open(path))["case"]
    exe = build_harness()
    wd = scratch()
    if "vector" in case:
        v = os.path.join(wd, "v.ndjson")
        open(v, "w").write(json.dumps(case["vector"]) + "\n")
        run_harness(exe, [case["replay_cmd"], v, v + ".res"])
        r = json.loads(open(v + ".res").readline())
        print(json.dumps(r, indent=1)[:4000])
        return 0 if r["ok"] else 1
    print(json.dumps(case, indent=1)[:4000])
    return 1

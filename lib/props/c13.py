"""C13: try is all-or-nothing. spec: JetExec.tla (TryEnter/Commit/Catch, Unwind), Gen_C13.tla."""
from execfam import *

def run(rep, tier, seed):
    wd = spec_scratch()
    exe = build_harness()
    rep.rule = ("programs: every wrapper path of depth <=2 (quick) / <=3 sampled (thorough) over 20 wrapper kinds inside a try "
                "body x focal {ok, failing call, unknown identifier, assignment to undeclared} x {no catch, catch, catch var} x "
                "{top level, inside a block yielded with content}, probes for '.', variables, isset of every name, yield content "
                "and output position before and after the try; each program also after an execution into a writer that fails; every construct failing inside a try 130 times in one execution (Gen_Soak); every program is non-trivial; distinct by program. History probe: 7 call sites in the try body x 7 failing templates that define, import or inherit a block named like one of the caller's x catch with/without a variable, executed twice: blocks, variables, '.' and output after the try are those before it")
    gen_and_replay(rep, wd, exe, "Gen_C13.tla", "C13_d2", {"Depth": 2}, {"Kinds": "WrapKinds"})
    # the same programs after an execution whose writer failed half way (undelivered bytes of a committed try)
    import os
    replay_vectors(rep, exe, "replay-exec-poison", os.path.join(wd, "vec_C13_d2.ndjson"), shards=4)
    # the same failure inside a try, 130 times in one execution, for every construct: nothing accumulates
    gen_and_replay(rep, wd, exe, "Gen_Soak.tla", "C13_soak", {"N": 130, "Depth": 1 if tier == "quick" else 2}, {"Kinds": "CoreKinds"},
                   trace_execs=0, timeout=3000)
    mc_any_failure(rep, wd, "Gen_C13.tla", "C13_d1", {"Depth": 1}, {"Kinds": "WrapKinds"})
    if tier == "thorough":
        gen_and_replay(rep, wd, exe, "Gen_C13.tla", "C13_d3", {"Depth": 3}, {"Kinds": "CoreKinds"}, timeout=6000)
        asis_refuted(rep, wd, "Gen_C13.tla", "C13_asis", {"Depth": 1, "FixTry": "FALSE"}, {"Kinds": "WrapKinds"},
                     ("TryRestoresState",))
    repo_suite_traces(rep, wd)
    random_program_traces(rep, wd, exe, seed, 1500 if tier == "quick" else 12000, 4 if tier == "quick" else 5)
    rep.exhaustive = True

def replay(path):
    return replay_one(path)

"""C09: include / exec / includeIfExists. spec: JetExec.tla (DoInclude, DoExec, return register), Gen_C09.tla."""
from execfam import *

def run(rep, tier, seed):
    wd = spec_scratch()
    exe = build_harness()
    rep.rule = ("programs: call sites {include, include+ctx, exec, exec+ctx, includeIfExists(+ctx), missing template for each} "
                "at wrapper depth <=1 (quick) / <=2 (thorough) inside {range, yield content, try, include, if-let} x callee "
                "shape {plain, extends 1 level, extends 2 levels} x 12 return placements; the callee declares variables, rebinds "
                "'.', yields a block of the includer; probes after the call; all non-trivial; distinct by program. Probe: every spelling of one exec / includeIfExists call (plain, colon, '_' first, '_' second; with/without context; missing template) renders the same, twice")
    d = 1 if tier == "quick" else 2
    gen_and_replay(rep, wd, exe, "Gen_C09.tla", "C09_d%d" % d, {"Depth": d}, {})
    rep.exhaustive = True

def replay(path):
    return replay_one(path)

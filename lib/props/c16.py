"""C16: cache coherence. spec: JetSet.tla (mechanism Lookup + contract), Trace_Set.tla."""
import json, os
from common import *

CFGS = ["default", "noempty", "rev", "devdefault", "devnoempty", "long"]
EXTS = {"default": ["-", ".jet"], "noempty": [".jet"], "rev": [".jet", "-"],
        "devdefault": ["-", ".jet"], "devnoempty": [".jet"], "long": [".a", ".b", ".c", ".d", ".jet"]}

def run(rep, tier, seed):
    wd = spec_scratch()
    rep.rule = ("MC: all histories up to MaxOps over {GetTemplate, ExecInclude, Parse(plain/extends y/extends x), LoaderSet, "
                "LoaderDelete, InjectFault(open/read/unparsable), ClearFault} x 5 initial worlds x 6 (extension list, dev) "
                "configurations; vectors: every history of length 3 (BFS) plus simulated histories of length 8, each replayed "
                "on a real Set twice (custom recording cache / default cache); non-trivial = history contains a lookup or a "
                "Parse with extends; distinct by full history. traces: seeded random histories recorded from the real Set")
    exe = build_harness()
    mcops = 4 if tier == "quick" else 5
    cfgs = CFGS if tier == "thorough" else ["default", "noempty", "rev", "devdefault", "long"]
    for c in cfgs:
        cfg = "MC_Set_%s.cfg" % c
        txt = open(os.path.join(wd, cfg)).read().replace("MaxOps = 4", "MaxOps = %d" % mcops)
        open(os.path.join(wd, cfg), "w").write(txt)
        r = run_tlc(wd, "MC_Set.tla", cfg, workers=8, heap="6g", timeout=3000)
        need_ok(r, cfg)
        rep.add_tlc(r, cfg)
    if tier == "thorough":
        # design-level record of the finding fixed in the code: Put under the request path breaks HitIdentity
        for c in ["noempty", "rev"]:
            r = run_tlc(wd, "MC_Set.tla", "MC_Set_asis_%s.cfg" % c, workers=4, heap="4g", timeout=600)
            if r.violated != "HitIdentity":
                raise Inconclusive("as-implemented design variant (PutKey=request, %s) was expected to violate HitIdentity: %s %s"
                                   % (c, r.violated, r.error))
            rep.notes.append("as-is variant %s: HitIdentity refuted by TLC as expected (%d states)" % (c, r.distinct))
    # spec -> code
    for c in cfgs:
        vec = os.path.join(wd, "vec_%s.ndjson" % c)
        with open(vec, "w") as sink:
            r = run_tlc(wd, "MC_Set.tla", "Gen_Set_%s.cfg" % c, workers=8, heap="6g", timeout=3000,
                        keep_vecs=False, vec_sink=sink)
            need_ok(r, "Gen_Set_" + c)
            rep.add_tlc(r, "Gen_Set_" + c)
            nsim = 300 if tier == "quick" else 4000
            r = run_tlc(wd, "MC_Set.tla", "Sim_Set_%s.cfg" % c, workers=4, heap="4g", timeout=1200,
                        keep_vecs=False, vec_sink=sink, simulate="num=%d" % nsim, depth=9, seed=seed)
            if r.error or r.violated:
                raise Inconclusive("Sim_Set_%s: %s %s" % (c, r.error, r.violated))
            rep.cmds.append("Sim_Set_%s: %s" % (c, r.cmd))
        with open(vec) as f:
            for i, line in enumerate(f):
                if i == 1000:
                    rep.sample({"cfg": c, "vector": json.loads(line)}, limit=3)
        replay_vectors(rep, exe, "replay-C16", vec)
    # code -> spec
    ntr, ln = (40, 60) if tier == "quick" else (400, 80)
    for c in cfgs:
        tr = os.path.join(wd, "trace_set.ndjson")
        p = run_harness(exe, ["record-C16", tr, os.path.join(wd, "trace_set_cfg.ndjson"), str(seed), str(ntr), str(ln),
                              "1" if c.startswith("dev") else "0"] + EXTS[c])
        if p.returncode != 0:
            raise Inconclusive("record-C16 failed: " + p.stderr[-1000:])
        def sigfn(ev, lines, k):
            j = k
            while j > 0 and json.loads(lines[j]).get("op") != "init":
                j -= 1
            pre = [json.loads(x) for x in lines[j:k + 1]]
            noempty = "-" not in EXTS[c]
            return ({"op": ev.get("op"), "kind": "trace", "dev": c.startswith("dev"),
                     "exts_first_empty": EXTS[c][0] == "-", "exts_no_empty": noempty},
                    {"cfg": c, "exts": EXTS[c], "history_up_to_rejected_event": pre,
                     "detail": "recorded result/calls of the last event are not what JetSet's action yields"})
        count = lambda lines: sum(1 for x in lines if '"op":"init"' in x)
        validate_trace(rep, wd, "MC_TraceSet.tla", "Trace_Set.cfg", tr, sigfn, "Trace_Set_" + c, heap="4g",
                       count_traces=count)

def replay(path):
    case = json.load(open(path))["case"]
    exe = build_harness()
    wd = scratch()
    if "vector" in case:
        v = os.path.join(wd, "v.ndjson")
        open(v, "w").write(json.dumps(case["vector"]) + "\n")
        run_harness(exe, ["replay-C16", v, v + ".res"])
        r = json.loads(open(v + ".res").readline())
        print(json.dumps(r, indent=1)[:4000])
        return 0 if r["ok"] else 1
    print(json.dumps(case, indent=1)[:4000])
    return 1

"""C12: evaluation failures are returned as errors naming file and line. spec: JetExec.tla (Raise/Unwind), Gen_C12.tla."""
from execfam import *
import os

def run(rep, tier, seed):
    import common
    common.GOENV["VERIF_PROBE"] = "C12"
    wd = spec_scratch()
    exe = build_harness()
    rep.rule = ("programs: 28 failure classes (each a concrete failing Jet expression from the harness catalogue) x 12 positions in "
                "a statement (print, :=, =, if condition, if-let, range subject, yield argument/context, yield content context, "
                "include/exec context, return) x wrapper path of depth <=1 (quick) / <=2 (thorough) that moves the action into an "
                "included file, an imported block, a block body, a range, a try ... x {executed file, extended layout} x leading "
                "filler lines; expected: error (not panic) naming file and line, output = exactly the prefix; distinct by program. Probe: 9 argument values x 20 call shapes (fixed, variadic, interface, pointer parameters; written and piped) on line 3 of an included file: every failing call names file and line, nothing is rendered after it")
    d = 1 if tier == "quick" else 2
    gen_and_replay(rep, wd, exe, "Gen_C12.tla", "C12_d%d" % d, {"Depth": d}, {}, timeout=4000)
    rep.exhaustive = True

def replay(path):
    return replay_one(path)

"""C03: literal text verbatim; only trim markers and comments remove bytes. spec: JetLex.tla (Rendered contract)."""
import json, os
from common import *

def execfam_replay(path):
    import execfam
    return execfam.replay_one(path)

def run(rep, tier, seed):
    wd = spec_scratch()
    exe = build_harness()
    rep.rule = ("per delimiter configuration (default; [[ ]] with default comments; [[ ]] with [* *]; <% %> with <# #>; {{ }} with <!-- --> of unequal length; only the left comment marker configured): ALL byte "
                "strings of length <=5 (quick) / <=6 (thorough) over the configuration's delimiter bytes plus '-', space, newline, "
                "'x', and ALL token strings of <=4 / <=5 tokens over {LD, RD, LC, RC, '- ', ' -', whitespace runs, identifiers, text, "
                "lone delimiter bytes}, the Gen_C10 histories (literal text around failed try bodies and across executions), and token strings behind 5 header shapes of leading import clauses and whitespace; the contract classifies each as rendering a text, a parse error (unclosed comment) or "
                "unspecified (action body other than one identifier; not emitted); non-trivial: contains an action or comment "
                "opener; distinct by (configuration, source)")
    for c in "ABCDEF":
        for fam in ("Lex", "LexTok", "LexHdr"):
            cfg = "MC_%s_%s_%s.cfg" % (fam, c, tier) if fam != "LexHdr" else "MC_LexHdr_%s.cfg" % c
            vec = os.path.join(wd, "%s_%s.ndjson" % (fam, c))
            with open(vec, "w") as sink:
                r = run_tlc(wd, "MC_Lex.tla", cfg, workers=12, heap="8g", timeout=6000, keep_vecs=False, vec_sink=sink, deque=True)
            need_ok(r, cfg)
            rep.add_tlc(r, cfg)
            with open(vec) as f:
                for i, line in enumerate(f):
                    if i == 20000 and fam == "LexTok":
                        rep.sample({"cfg": c, "vector": json.loads(line)})
            replay_vectors(rep, exe, "replay-C03", vec, extra_args=[c], shards=4)
    # literal text must also survive the interpreter unchanged: nothing added by an earlier failed try or execution
    import execfam
    execfam.gen_and_replay(rep, wd, exe, "Gen_C10.tla", "C03_texts_across_executions", {"Depth": 1}, {"Kinds": "WrapKinds"},
                           extra_inv=["SpecPure"], trace_execs=0)
    rep.exhaustive = True

def replay(path):
    d = json.load(open(path))
    if d["case"].get("replay_cmd") == "replay-exec":
        return execfam_replay(path)
    case = d["case"]
    exe = build_harness()
    wd = scratch()
    v = os.path.join(wd, "v.ndjson")
    open(v, "w").write(json.dumps(case["vector"]) + "\n")
    run_harness(exe, ["replay-C03", v, v + ".res", d["sig"]["cfg"]])
    r = json.loads(open(v + ".res").readline())
    print(json.dumps(r, indent=1)[:4000])
    return 0 if r["ok"] else 1

"""C10: Execute is pure (no residue). spec: JetExec.tla (ExecStart/ExecEnd, pool), Gen_C10.tla."""
from execfam import *

def run(rep, tier, seed):
    wd = spec_scratch()
    exe = build_harness()
    rep.rule = ("histories of four Execute calls on one goroutine (A, probe, A, probe) where A is every wrapper path of depth "
                "<=1 (quick) / <=2 (thorough) around a focal that succeeds or fails (two classes), inside or outside try, and the "
                "probe template (top level / in a block / through include) renders '.', variables, yield content; the probe runs "
                "once with nil data; every history is non-trivial; distinct by history")
    d = 1 if tier == "quick" else 2
    gen_and_replay(rep, wd, exe, "Gen_C10.tla", "C10_d%d" % d, {"Depth": d}, {"Kinds": "WrapKinds"}, extra_inv=["SpecPure"])
    if tier == "thorough":
        asis_refuted(rep, wd, "Gen_C10.tla", "C10_asis", {"Depth": 1, "FixPool": "FALSE"}, {"Kinds": "WrapKinds"}, ("StartsClean",))
    repo_suite_traces(rep, wd)
    rep.exhaustive = True

def replay(path):
    return replay_one(path)

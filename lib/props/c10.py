"""C10: Execute is pure (no residue). spec: JetExec.tla (ExecStart/ExecEnd, pool), Gen_C10.tla."""
from execfam import *
import json, os

def access_histories(rep, wd, exe):
    """process-wide memo tables (struct field index cache): the access paths of JetAccess over the struct roots are
    replayed in one process in the enumerated order and in the reverse order - what an access yields must not
    depend on which accesses ran before it"""
    vec = os.path.join(wd, "acc_c10.ndjson")
    with open(vec, "w") as sink:
        r = run_tlc(wd, "JetAccess.tla", "MC_Access_c10.cfg", workers=8, heap="4g", timeout=1200, keep_vecs=False, vec_sink=sink, deque=True)
    need_ok(r, "MC_Access_c10")
    rep.add_tlc(r, "MC_Access_c10")
    lines = open(vec).read().split("\n")
    lines = [l for l in lines if l.strip()]
    # group by root so that one order meets the nil embedded pointer (outer2) after the non-nil one, the other before
    lines.sort(key=lambda l: json.loads(l).get("root", ""))
    for order, ls in (("forward", lines), ("reverse", lines[::-1])):
        f = os.path.join(wd, "acc_c10_%s.ndjson" % order)
        open(f, "w").write("\n".join(ls) + "\n")
        res = f + ".res"
        p = run_harness(exe, ["replay-C06", f, res], timeout=1800)
        if p.returncode != 0:
            raise Inconclusive("replay-C06 (%s) failed: %s" % (order, (p.stderr or p.stdout)[-1000:]))
        n = 0
        for line in open(res):
            rr = json.loads(line)
            n += 1
            if rr.get("ok"):
                continue
            if not rr.get("sig"):
                raise Inconclusive("harness: " + str(rr.get("detail")))
            sig = {"kind": "history-access", "order": order, "what": rr["sig"].get("kind"), "root": rr["sig"].get("root")}
            rep.violation(sig, {"replay_cmd": "replay-C06", "vector": rr.get("case"), "observed": rr.get("observed"),
                                "expected": rr.get("expected"), "detail": "in %s order: %s" % (order, rr.get("detail"))})
        rep.evaluations += n

def run(rep, tier, seed):
    wd = spec_scratch()
    exe = build_harness()
    rep.rule = ("histories of four Execute calls on one goroutine (A, probe, A, probe) where A is every wrapper path of depth "
                "<=1 (quick) / <=2 (thorough) around a focal that succeeds or fails (two classes), inside or outside try, and the "
                "probe template (top level / in a block / through include) renders '.', variables, yield content; the probe runs "
                "once with nil data; A with and without a top-level := (deferred scope restore) and with VarMap entries the probe must not see; "
                "each history also with the probes executed through a second Set with another escaper; every history is non-trivial; distinct by history")
    d = 1 if tier == "quick" else 2
    gen_and_replay(rep, wd, exe, "Gen_C10.tla", "C10_d%d" % d, {"Depth": d}, {"Kinds": "WrapKinds"}, extra_inv=["SpecPure"])
    # the same histories with the odd-numbered executions going through a second Set (same templates, another escaper)
    replay_vectors(rep, exe, "replay-exec-alt", os.path.join(wd, "vec_C10_d%d.ndjson" % d), shards=4)
    # parsing and executing one template must not change what another one renders afterwards: the multi-execution
    # families of Gen_C08 (two entry templates sharing a library; block tables built from two sources)
    gen_and_replay(rep, wd, exe, "Gen_C08.tla", "C10_shared_tables", {"Families": '{"shared", "alias"}'}, {}, trace_execs=0)
    # what a custom function binds through the Runtime API while Execute has no VarMap is gone in the next execution
    gen_and_replay(rep, wd, exe, "Gen_C18.tla", "C10_api_nilvars", {"Depth": 0, "Families": '{"top"}'}, {}, trace_execs=0)
    access_histories(rep, wd, exe)
    if tier == "thorough":
        asis_refuted(rep, wd, "Gen_C10.tla", "C10_asis", {"Depth": 1, "FixPool": "FALSE"}, {"Kinds": "WrapKinds"}, ("StartsClean",))
    repo_suite_traces(rep, wd)
    rep.exhaustive = True

def replay(path):
    return replay_one(path)

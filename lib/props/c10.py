"""C10: Execute is pure (no residue). spec: JetExec.tla (ExecStart/ExecEnd, pool), Gen_C10.tla."""
from execfam import *

def run(rep, tier, seed):
    wd = spec_scratch()
    exe = build_harness()
    rep.rule = ("histories of four Execute calls on one goroutine (A, probe, A, probe) where A is every wrapper path of depth "
                "<=1 (quick) / <=2 (thorough) around a focal that succeeds or fails (two classes), inside or outside try, and the "
                "probe template (top level / in a block / through include) renders '.', variables, yield content; the probe runs "
                "once with nil data; A with and without a top-level := (deferred scope restore) and with VarMap entries the probe must not see; "
                "each history also with the probes executed through a second Set with another escaper; every history is non-trivial; distinct by history")
    d = 1 if tier == "quick" else 2
    gen_and_replay(rep, wd, exe, "Gen_C10.tla", "C10_d%d" % d, {"Depth": d}, {"Kinds": "WrapKinds"}, extra_inv=["SpecPure"])
    # the same histories with the odd-numbered executions going through a second Set (same templates, another escaper)
    replay_vectors(rep, exe, "replay-exec-alt", os.path.join(wd, "vec_C10_d%d.ndjson" % d), shards=4)
    if tier == "thorough":
        asis_refuted(rep, wd, "Gen_C10.tla", "C10_asis", {"Depth": 1, "FixPool": "FALSE"}, {"Kinds": "WrapKinds"}, ("StartsClean",))
    repo_suite_traces(rep, wd)
    rep.exhaustive = True

def replay(path):
    return replay_one(path)

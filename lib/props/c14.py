"""C14: pipelines, prefix calls and slots equal plain calls. spec: JetCall.tla (ArgVector normal form, Run, ConvTable, Builtins)."""
import json, os
from common import *

def vectors(rep, wd, exe, tier):
    cfg = "MC_Call_quick.cfg"
    vec = os.path.join(wd, "call.ndjson")
    with open(vec, "w") as sink:
        r = run_tlc(wd, "JetCall.tla", cfg, workers=12, heap="6g", timeout=3000, keep_vecs=False, vec_sink=sink, deque=True)
    need_ok(r, cfg)
    rep.add_tlc(r, cfg)
    with open(vec) as f:
        for i, line in enumerate(f):
            if i == 3000:
                rep.sample(json.loads(line))
    return vec

def run(rep, tier, seed):
    wd = spec_scratch()
    exe = build_harness()
    rep.rule = ("pipelines of 1..3 stages over 8 recording callees (reflected fixed arity 1-3, variadic with and without fixed "
                "prefix, value method, pointer method, jet.Func) x surface form per stage {plain, prefix-colon, piped, piped+colon, "
                "piped+parentheses, slot at every index, two slots} x 0..3 explicit arguments (three-stage pipelines over short "
                "forms); expected: the normal form's call log (each stage once, left to right), the rendered result, errors for "
                "wrong counts and two slots; plus the conversion table and the documented built-ins against the Go functions "
                "they expose; non-trivial: every pipeline; distinct by source text")
    vec = vectors(rep, wd, exe, tier)
    replay_vectors(rep, exe, "replay-C14", vec, shards=4)
    rep.exhaustive = True

def arguments_part(rep, wd, exe, tier, seed):
    """C18: the Arguments view of a jet.Func stage (checked inside replay-C14 for every jf stage)."""
    vec = vectors(rep, wd, exe, tier)
    jf = vec + ".jf"
    with open(vec) as f, open(jf, "w") as g:
        for line in f:
            if '"jf"' in line or '"conv"' in line:      # the tables vector carries the Arguments probes (lazy reads, ParseInto)
                g.write(line)
    replay_vectors(rep, exe, "replay-C14", jf)

def replay(path):
    case = json.load(open(path))["case"]
    exe = build_harness()
    wd = scratch()
    v = os.path.join(wd, "v.ndjson")
    open(v, "w").write(json.dumps(case["vector"]) + "\n")
    run_harness(exe, ["replay-C14", v, v + ".res"])
    r = json.loads(open(v + ".res").readline())
    print(json.dumps(r, indent=1)[:4000])
    return 0 if r["ok"] else 1

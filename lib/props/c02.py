"""C02: parsing is total. spec: JetStruct.tla (push-down acceptor verdicts), JetLexemes.tla (lexeme-class sequences),
JetLexProc.tla (lexer goroutine / parser protocol: no deadlock, no goroutine left behind)."""
import json, os, re, glob
from common import *

_REJ_AT = re.compile(r'"TRACE-REJECTED-AT", (\d+)')

def validate_protocol(rep, wd, tdir):
    """code -> spec: every parse recorded by the lexer/parser hooks must be a behaviour of JetLexProc.
    The trace spec sees only the shape of a parse (its event sequence), so each distinct shape is validated once."""
    shapes = {}
    total = 0
    for fn in glob.glob(os.path.join(tdir, "lex.*.ndjson")):
        with open(fn) as f:
            for line in f:
                try:
                    d = json.loads(line)
                except ValueError:
                    continue        # a worker killed mid-write
                if "count" in d:
                    total += d["count"]
                    continue
                key = json.dumps([d["p"], d["closed"]])
                if key not in shapes:
                    shapes[key] = d
    total = max(total, len(shapes))     # workers report their parse count every 1000 parses
    if not shapes:
        raise Inconclusive("no lexer/parser protocol events were recorded (hooks missing?)")
    keys = sorted(shapes)
    CH = 20000        # shapes per TLC run; runs are independent, six at a time
    chunks = [keys[a:a + CH] for a in range(0, len(keys), CH)]
    def one(chunk):
        cwd = spec_scratch()
        recs = [shapes[k] for k in chunk]
        rejected = []
        while recs:
            with open(os.path.join(cwd, "trace_lexproc.ndjson"), "w") as f:
                for d in recs:
                    f.write(json.dumps({"p": d["p"], "closed": d["closed"]}) + "\n")
            r = run_tlc(cwd, "Trace_LexProc.tla", "Trace_LexProc.cfg", workers=1, heap="2g", timeout=1800, keep_vecs=False)
            if r.error:
                return ("error", r.error, None)
            if r.violated and r.violated != "postcondition":
                return ("error", "%s violated while validating\n%s" % (r.violated, r.out[-1500:]), None)
            m = _REJ_AT.search(r.out)
            if m is None:
                return ("ok", rejected, r)
            k = int(m.group(1)) - 1
            rejected.append(recs[k])
            del recs[k]
            if len(rejected) >= 20:
                return ("ok", rejected, r)
        return ("ok", rejected, None)
    import concurrent.futures
    rejected = 0
    with concurrent.futures.ThreadPoolExecutor(max_workers=6) as ex:
        for status, payload, r in ex.map(one, chunks):
            if status == "error":
                raise Inconclusive("Trace_LexProc: %s" % payload)
            if r is not None:
                rep.add_tlc(r, "Trace_LexProc")
            for d in payload:
                evs = " ".join(e["ev"] + (":%s" % e["typ"] if "typ" in e else "") for e in d["p"])
                rep.violation({"kind": "protocol", "cfg": d["cfg"], "closed": d["closed"], "last": d["p"][-1]["ev"] if d["p"] else ""},
                              {"vector": {"src": d["src"], "kind": "src"}, "detail": "parse of %r is not a behaviour of the lexer/parser protocol: "
                               "parser events [%s], lexer closed=%s" % (d["src"], evs, d["closed"])})
                rejected += 1
    rep.traces += total
    rep.notes.append("Trace_LexProc: %d recorded parses (%d distinct event shapes) validated against JetLexProc, %d rejected"
                     % (total, len(shapes), rejected))

def apalache_inductive(rep, wd):
    """unbounded safety of the protocol: the inductive invariant of spec/LexProcInd.tla (left ranges over Nat),
    Init => IndInv and IndInv /\\ Next => IndInv' discharged by Apalache"""
    import subprocess
    for args, what in ((["--init=Init", "--length=0"], "Init => IndInv"), (["--init=IndInit", "--length=1"], "IndInv /\\ Next => IndInv'")):
        p = subprocess.run(["timeout", "600", "apalache-mc", "check", "--cinit=CInit", "--inv=IndInv"] + args + ["LexProcInd.tla"],
                           cwd=wd, stdout=subprocess.PIPE, stderr=subprocess.STDOUT, text=True)
        if "EXITCODE: OK" not in p.stdout:
            raise Inconclusive("Apalache did not discharge %s: %s" % (what, p.stdout[-600:]))
    rep.notes.append("LexProcInd (Apalache): the inductive invariant (TypeOK, closed <=> lexer done, done => end sent, end sent => nothing left, "
                     "returned => end sent, NoStuck) holds for every number of items")

def run(rep, tier, seed):
    wd = spec_scratch()
    exe = build_harness()
    rep.rule = ("(i) all structural token sequences of length <=3 (quick) / <=5 (thorough) over 21 (quick: 23) tokens incl. unterminated action, "
                "comment, string literal, misplaced extends/import and extends/import of templates that are broken themselves (thorough: up to 4 tokens), verdict from the push-down acceptor; (ii) every truncation "
                "(each byte offset) of every accepted sequence; (iii) all sequences of <=2 / <=3 lexeme classes (55 classes incl. "
                "multi-byte letters, invalid UTF-8, control bytes, unterminated literals) in 8 (quick) / 13 keyword contexts, each also cut off right behind its last lexeme; each under "
                "default and custom delimiters, parsed through Set.Parse and Set.GetTemplate in a worker process with a 10 s "
                "deadline and a goroutine count; non-trivial: all; distinct by (configuration, source)")
    # design level: the goroutine protocol
    r = run_tlc(wd, "JetLexProc.tla", "MC_LexProc.cfg", workers=4, heap="2g", timeout=600, fpset_small=False)
    need_ok(r, "MC_LexProc")
    rep.add_tlc(r, "MC_LexProc")
    r = run_tlc(wd, "JetLexProc.tla", "MC_LexProc_asis.cfg", workers=4, heap="2g", timeout=600, fpset_small=False)
    if r.violated != "NoStuck":
        raise Inconclusive("the re-panic-without-drain path was expected to leave the lexer goroutine blocked: %s %s" % (r.violated, r.error))
    rep.notes.append("JetLexProc: draining parser proves no deadlock / no leak; the runtime.Error path (re-panic without drain) "
                     "is refuted by TLC (lexer blocked forever) - reachable only through a runtime error in the parser")
    if tier == "thorough":
        apalache_inductive(rep, wd)
    fams = [("JetStruct.tla", "MC_Struct_%s.cfg" % tier, "struct", ["A", "C", "E"] if tier == "quick" else ["A", "B", "C", "D", "E"]),
            ("JetLexemes.tla", "MC_Lexemes_quick.cfg", "lexeme", ["A"] if tier == "quick" else ["A", "C"])]
    if tier == "thorough":
        fams.append(("JetLexemes.tla", "MC_Lexemes_thorough.cfg", "lexeme3", ["A"]))
        # extends/import of templates that are themselves broken, in sequences of up to four tokens
        fams.append(("JetStruct.tla", "MC_Struct_deps.cfg", "structdeps", ["A", "C"]))
    tdir = os.path.join(wd, "lextrace")
    os.makedirs(tdir)
    for mod, cfg, fam, cfgs in fams:
        vec = os.path.join(wd, fam + ".ndjson")
        with open(vec, "w") as sink:
            r = run_tlc(wd, mod, cfg, workers=12, heap="8g", timeout=6000, keep_vecs=False, vec_sink=sink, deque=True)
        need_ok(r, cfg)
        rep.add_tlc(r, cfg)
        with open(vec) as f:
            for i, line in enumerate(f):
                if i == 7000:
                    rep.sample({"family": fam, "vector": json.loads(line)})
        for c in cfgs:
            replay_vectors(rep, exe, "replay-C02", vec, extra_args=[c], timeout=6000, shards=8, env={"VERIF_LEXTRACE": tdir})
    validate_protocol(rep, wd, tdir)
    rep.exhaustive = True

def replay(path):
    d = json.load(open(path))
    case = d["case"]
    exe = build_harness()
    wd = scratch()
    v = os.path.join(wd, "v.ndjson")
    open(v, "w").write(json.dumps(case["vector"]) + "\n")
    run_harness(exe, ["replay-C02", v, v + ".res", d["sig"]["cfg"]])
    r = json.loads(open(v + ".res").readline())
    print(json.dumps(r, indent=1)[:4000])
    return 0 if r["ok"] else 1

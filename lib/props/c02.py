"""C02: parsing is total. spec: JetStruct.tla (push-down acceptor verdicts), JetLexemes.tla (lexeme-class sequences),
JetLexProc.tla (lexer goroutine / parser protocol: no deadlock, no goroutine left behind)."""
import json, os
from common import *

def run(rep, tier, seed):
    wd = spec_scratch()
    exe = build_harness()
    rep.rule = ("(i) all structural token sequences of length <=3 (quick) / <=5 (thorough) over 19 tokens incl. unterminated action, "
                "comment, string literal and misplaced extends/import, verdict from the push-down acceptor; (ii) every truncation "
                "(each byte offset) of every accepted sequence; (iii) all sequences of <=2 / <=3 lexeme classes (55 classes incl. "
                "multi-byte letters, invalid UTF-8, control bytes, unterminated literals) in 8 (quick) / 13 keyword contexts, each also cut off right behind its last lexeme; each under "
                "default and custom delimiters, parsed through Set.Parse and Set.GetTemplate in a worker process with a 5 s "
                "deadline and a goroutine count; non-trivial: all; distinct by (configuration, source)")
    # design level: the goroutine protocol
    r = run_tlc(wd, "JetLexProc.tla", "MC_LexProc.cfg", workers=4, heap="2g", timeout=600, fpset_small=False)
    need_ok(r, "MC_LexProc")
    rep.add_tlc(r, "MC_LexProc")
    r = run_tlc(wd, "JetLexProc.tla", "MC_LexProc_asis.cfg", workers=4, heap="2g", timeout=600, fpset_small=False)
    if r.violated != "NoStuck":
        raise Inconclusive("the re-panic-without-drain path was expected to leave the lexer goroutine blocked: %s %s" % (r.violated, r.error))
    rep.notes.append("JetLexProc: draining parser proves no deadlock / no leak; the runtime.Error path (re-panic without drain) "
                     "is refuted by TLC (lexer blocked forever) - reachable only through a runtime error in the parser")
    fams = [("JetStruct.tla", "MC_Struct_%s.cfg" % tier, "struct", ["A", "C"] if tier == "quick" else ["A", "B", "C", "D"]),
            ("JetLexemes.tla", "MC_Lexemes_quick.cfg", "lexeme", ["A"] if tier == "quick" else ["A", "C"])]
    if tier == "thorough":
        fams.append(("JetLexemes.tla", "MC_Lexemes_thorough.cfg", "lexeme3", ["A"]))
    for mod, cfg, fam, cfgs in fams:
        vec = os.path.join(wd, fam + ".ndjson")
        with open(vec, "w") as sink:
            r = run_tlc(wd, mod, cfg, workers=12, heap="8g", timeout=6000, keep_vecs=False, vec_sink=sink, deque=True)
        need_ok(r, cfg)
        rep.add_tlc(r, cfg)
        with open(vec) as f:
            for i, line in enumerate(f):
                if i == 7000:
                    rep.sample({"family": fam, "vector": json.loads(line)})
        for c in cfgs:
            replay_vectors(rep, exe, "replay-C02", vec, extra_args=[c], timeout=6000, shards=8)
    rep.exhaustive = True

def replay(path):
    d = json.load(open(path))
    case = d["case"]
    exe = build_harness()
    wd = scratch()
    v = os.path.join(wd, "v.ndjson")
    open(v, "w").write(json.dumps(case["vector"]) + "\n")
    run_harness(exe, ["replay-C02", v, v + ".res", d["sig"]["cfg"]])
    r = json.loads(open(v + ".res").readline())
    print(json.dumps(r, indent=1)[:4000])
    return 0 if r["ok"] else 1

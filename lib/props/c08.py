"""C08: extends renders the root; blocks resolve to the most-derived definition. spec: JetExec.tla (EffBlock, YieldBlock), Gen_C08.tla."""
from execfam import *

def run(rep, tier, seed):
    wd = spec_scratch()
    exe = build_harness()
    rep.rule = ("template sets of 6 files: extends chains of length 0..2, 0..2 imports on the leaf (and one on the middle layout), "
                "every subset of files defining block b1 x 4 placements of b2, yield placed in the root body / at a definition "
                "site / in a range / in a block / in content; every ordered selection of named arguments for a block with a "
                "no-default, a literal-default and a parameter-referencing default, declared in an import or used from a layout; "
                "content supplied by caller / default / absent / empty, nested content, no content left over from an earlier failed execution; all non-trivial; distinct by template set")
    gen_and_replay(rep, wd, exe, "Gen_C08.tla", "C08", {"Families": '{"tree", "params", "shared", "alias", "content"}'}, {}, timeout=3000)
    # {{yield content}} where no content was supplied renders nothing - also in an execution that follows one which
    # failed while content was installed (histories of Gen_C10 around the content-carrying wrappers)
    gen_and_replay(rep, wd, exe, "Gen_C10.tla", "C08_content_after_failure", {"Depth": 1}, {"Kinds": "ContentKinds"}, trace_execs=0)
    # a block yielded from Go (Runtime.YieldBlock) resolves like {{yield name()}} at the call site: the Gen_C18 call sites
    gen_and_replay(rep, wd, exe, "Gen_C18.tla", "C08_yieldblock_api", {"Depth": 1, "Families": '{"site"}'}, {}, trace_execs=0)
    rep.exhaustive = True

def replay(path):
    return replay_one(path)

"""C17: isset never fails and is true exactly when every argument exists and is non-nil. Shares JetAccess.tla with C06."""
from props.c06 import run_both, replay

def run(rep, tier, seed):
    run_both(rep, tier, seed, "C17")

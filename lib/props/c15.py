"""C15: loaders only see clean absolute paths.  spec: JetPath.tla (Canon, ProbeCalls)."""
import json, os
from common import *

def sig_of(ev):
    s = ev["segs"]
    return {"entry": ev["entry"], "abs": ev["abs"], "dotdot": ".." in s, "dot": "." in s, "empty": "" in s,
            "hit": ev["hit"] > 0, "dev": ev.get("dev", False)}

def run(rep, tier, seed):
    wd = spec_scratch()
    rep.rule = ("vectors: every spelling of <=3 (quick) / <=4 (thorough) segments over {a,b,.,..,''} x abs/rel x 8 entry "
                "points x referrer depth x extension list x which candidate exists, enumerated by TLC; non-trivial = "
                "spelling contains '.', '..' or an empty segment; distinct by (entry, spelling). traces: seeded random "
                "spellings of <=8 segments through the real Set, validated by TLC against Trace_Path")
    vec = os.path.join(wd, "vec.ndjson")
    with open(vec, "w") as sink:
        r = run_tlc(wd, "MC_Path.tla", "MC_Path_%s.cfg" % tier, workers=8, heap="4g", timeout=1500,
                    keep_vecs=False, vec_sink=sink)
    need_ok(r, "MC_Path")
    rep.add_tlc(r, "MC_Path_" + tier)
    rep.exhaustive = True
    exe = build_harness()
    with open(vec) as f:
        for i, line in enumerate(f):
            if i in (7, 4001):
                rep.sample(json.loads(line))
    replay_vectors(rep, exe, "replay-C15", vec)
    # code -> spec
    n = 3000 if tier == "quick" else 60000
    tr = os.path.join(wd, "trace_path.ndjson")
    p = run_harness(exe, ["record-C15", tr, str(seed), str(n)])
    if p.returncode != 0:
        raise Inconclusive("record-C15 failed: " + p.stderr[-1000:])
    def sigfn(ev, lines, k):
        return sig_of(ev), {"trace_event": ev, "detail": "recorded Loader/Cache calls are not Canon+ProbeCalls of the spec"}
    rep.sample({"trace_event": json.loads(open(tr).readline())})
    validate_trace(rep, wd, "Trace_Path.tla", "Trace_Path.cfg", tr, sigfn, "Trace_Path", heap="4g")

def replay(path):
    case = json.load(open(path))["case"]
    exe = build_harness()
    wd = scratch()
    if "vector" in case:
        v = os.path.join(wd, "v.ndjson")
        open(v, "w").write(json.dumps(case["vector"]) + "\n")
        p = run_harness(exe, ["replay-C15", v, v + ".res"])
        r = json.loads(open(v + ".res").readline())
        print(json.dumps(r, indent=1))
        return 0 if r["ok"] else 1
    sw = spec_scratch()
    open(os.path.join(sw, "trace_path.ndjson"), "w").write(json.dumps(case["trace_event"]) + "\n")
    print("re-record the event with: jetharness record-C15; event:", json.dumps(case["trace_event"]))
    return 1

"""C01: every rendered value escaped exactly once; only SafeWriters bypass. spec: JetExec.tla (DoPrint, WriteTo, TryCommit), Gen_C01.tla."""
from execfam import *

def run(rep, tier, seed):
    wd = spec_scratch()
    exe = build_harness()
    rep.rule = ("programs: a rendering action (variable or '.') with final pipeline stage in {none, raw, unsafe, safeHtml, safeJs, "
                "user SafeWriter} x 11 value shapes carrying HTML-special bytes (incl. a 8.2 kB string straddling the printer's "
                "4096-byte chunk) x focal {plain, followed by a failure, twice} x every wrapper path of depth <=1, plus depth 2 "
                "(quick) / 3 (thorough) for two shapes; each program executed under three Set escapers (bracketing custom "
                "escaper, default HTML escaper, none); literal text carries special bytes too; distinct by program")
    d = 2 if tier == "quick" else 3
    gen_and_replay(rep, wd, exe, "Gen_C01.tla", "C01_d%d" % d, {"Depth": d}, {}, replay_cmd="replay-C01", timeout=6000)
    rep.exhaustive = True

def replay(path):
    return replay_one(path, "replay-C01")

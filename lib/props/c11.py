"""C11: a Set and its templates are safe for concurrent use and give serial results.
spec: JetConc.tla (interleavings at Cache/Loader-call granularity). Binding: (a) every TLC interleaving replayed by a
gate-driven scheduler on the real Set; (b) the same operation mixes plus a cache-populating mix free-running under
Go's race detector."""
import json, os, re
from common import *

def run(rep, tier, seed):
    wd = spec_scratch()
    exe = build_harness()
    rep.rule = ("(a) every interleaving (TLC, exhaustive) of 2 (quick) / 2-3 (thorough) goroutines each running 2-3 operations from "
                "{GetTemplate of the same / different names (4 steps each: cache probe, loader probe, open+parse, cache put), Execute, "
                "AddGlobal, LookupGlobal, loader edit}, replayed step by step through gating Loader/Cache wrappers, every result "
                "compared; (b) the same programs and a mix (fresh struct type per repetition, pooled rangers, run-time include, "
                "global updates, in-memory loader edits in development mode) free-running under -race for 200 (quick) / 5000 "
                "repetitions; non-trivial: every schedule; distinct by schedule")
    cfg = "MC_Conc_%s.cfg" % tier
    vec = os.path.join(wd, "conc.ndjson")
    with open(vec, "w") as sink:
        r = run_tlc(wd, "MC_Conc.tla", cfg, workers=8, heap="8g", timeout=6000, keep_vecs=False, vec_sink=sink, fpset_small=False)
    need_ok(r, cfg)
    rep.add_tlc(r, cfg)
    with open(vec) as f:
        for i, line in enumerate(f):
            if i == 100:
                rep.sample(json.loads(line))
    replay_vectors(rep, exe, "replay-C11", vec, shards=4, timeout=3000)
    rep.exhaustive = True
    # (b) race detector
    rexe = build_harness(race=True)
    reps = 200 if tier == "quick" else 5000
    p = run_harness(rexe, ["race-C11", vec, str(reps)], timeout=3000, env={"GORACE": "halt_on_error=0 exitcode=66"})
    out = (p.stdout or "") + (p.stderr or "")
    races = len(re.findall(r"WARNING: DATA RACE", out))
    mism = [l for l in out.split("\n") if l.startswith("RACE-MIX-MISMATCH")]
    fatal = [l for l in out.split("\n") if l.startswith("fatal error:")]
    rep.extra["race_detector"] = {"repetitions": reps, "data_races_reported": races, "result_mismatches": len(mism),
                                  "level": "exploration (Go race detector is the oracle for data-race freedom)"}
    rep.evaluations += reps
    if races or mism or fatal or p.returncode not in (0,):
        first = ""
        m = re.search(r"WARNING: DATA RACE.*?(?=\n\n|\Z)", out, re.S)
        if m:
            first = m.group(0)[:1500]
        kind = "datarace" if races else ("fatal" if fatal else "mismatch")
        where = ""
        mm = re.search(r"jet/v6[^\n]*\.go:\d+", first)
        if mm:
            where = mm.group(0)
        rep.violation({"kind": kind, "where": where},
                      {"replay_cmd": "race-C11", "repetitions": reps, "first_report": first or "\n".join((mism + fatal)[:5]),
                       "detail": "free-running operation mix under -race: %d data race report(s), %d result mismatch(es), rc=%d"
                                 % (races, len(mism), p.returncode)})
    elif "RACE-OK" not in out:
        raise Inconclusive("race-C11 produced no verdict: " + out[-800:])

def replay(path):
    d = json.load(open(path))
    case = d["case"]
    if case.get("replay_cmd") == "race-C11":
        print("re-run: ./check C11 --tier quick (the race mix is not deterministic); first report:\n" + str(case.get("first_report")))
        return 1
    exe = build_harness()
    wd = scratch()
    v = os.path.join(wd, "v.ndjson")
    open(v, "w").write(json.dumps(case["vector"]) + "\n")
    run_harness(exe, ["replay-C11", v, v + ".res"])
    r = json.loads(open(v + ".res").readline())
    print(json.dumps(r, indent=1)[:4000])
    return 0 if r["ok"] else 1

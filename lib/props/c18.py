"""C18: the Go-side Runtime and Arguments API mirrors template semantics.
spec: JetExec.tla (DoApi), Gen_C18.tla; the Arguments view is decided with the call normal form (JetCall.tla, see c14)."""
from execfam import *

def run(rep, tier, seed):
    wd = spec_scratch()
    exe = build_harness()
    rep.rule = ("Runtime API: every sequence of <=2 operations from {Let, Set, SetOrLet, LetGlobal, Resolve, Context, YieldBlock with "
                "and without context, on declared/undeclared/VarMap/global names, template-level := and =} at every call site of "
                "wrapper depth <=1, single operations at depth 2 (thorough: 3), followed by reads of every name inside and after; "
                "Arguments API: the vectors of the call normal form (JetCall) with a jet.Func callee; distinct by program")
    d = 2 if tier == "quick" else 3
    gen_and_replay(rep, wd, exe, "Gen_C18.tla", "C18_d%d" % d, {"Depth": d, "Families": '{"site", "top"}'}, {}, timeout=6000)
    try:
        import props.c14 as c14
        c14.arguments_part(rep, wd, exe, tier, seed)
    except (ImportError, AttributeError):
        rep.notes.append("Arguments part not built yet")
    rep.exhaustive = True

def replay(path):
    return replay_one(path)

"""C20: utils.Walk visits every statement and expression node once and never panics. spec: JetWalk.tla."""
import json, os
from common import *

def run(rep, tier, seed):
    wd = spec_scratch()
    exe = build_harness()
    rep.rule = ("templates: one representative of every statement kind (29 forms incl. optional children present/absent), every "
                "expression kind (24 representatives + every kind nested in every child slot of every expression parent) in every "
                "expression slot of every statement (22 slots), every statement kind in every list slot of every statement parent; "
                "expected: the node list of the template by node type; real: parse, utils.Walk with a visitor that descends with "
                "VisitorContext.Visit; no panic, no node twice, bag of node types equal (ListNode/catchNode containers at most once). History probe: a fixed catalogue of executable templates (jet.Func and reflected calls with a piped value and 0..8 written arguments in colon, call and explicit-slot forms, blocks, range, try, include, exec, return) is walked, executed once and twice, and walked again: node list and tree text unchanged")
    vec = os.path.join(wd, "walk.ndjson")
    with open(vec, "w") as sink:
        r = run_tlc(wd, "JetWalk.tla", "MC_Walk.cfg", workers=12, heap="6g", timeout=3000, keep_vecs=False, vec_sink=sink, deque=True)
    need_ok(r, "MC_Walk")
    rep.add_tlc(r, "MC_Walk")
    with open(vec) as f:
        for i, line in enumerate(f):
            if i in (30, 5000):
                rep.sample(json.loads(line))
    replay_vectors(rep, exe, "replay-C20", vec, shards=4)
    rep.exhaustive = True

def replay(path):
    case = json.load(open(path))["case"]
    exe = build_harness()
    wd = scratch()
    v = os.path.join(wd, "v.ndjson")
    open(v, "w").write(json.dumps(case["vector"]) + "\n")
    run_harness(exe, ["replay-C20", v, v + ".res"])
    r = json.loads(open(v + ".res").readline())
    print(json.dumps(r, indent=1)[:4000])
    return 0 if r["ok"] else 1

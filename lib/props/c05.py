"""C05: if renders one branch; range once per element. spec: JetExec.tla (DoIf, DoRange, RangeStep), Gen_C05.tla."""
from execfam import *
import os

def run(rep, tier, seed):
    wd = spec_scratch()
    exe = build_harness()
    rep.rule = ("programs: single if over 27 condition values of every Go kind x else/no else; else-if chains of 3 with all truth "
                "assignments (with and without if-let); range over 11 subject kinds x lengths 0..2 (quick) / 0..3 (thorough) x "
                "zero/one/two-variable forms x {:=, =} x '_' in either slot x else/no else; nested ranges over every pair of "
                "index-providing kinds; loop variables captured into outer variables; conditions that are operator trees (JetExpr, <=2 operators) in if and else-if; all non-trivial; distinct by program. Maps with >1 entry are compared as multisets. History probe: on one Set a range over 3 elements that is exhausted / left by return (first, second iteration, nested) / by a runtime error / by a panic (caught by try or not), followed by a range over 1,0,2,3,1,0 elements of the same kind or a map (map, slice, array, int, chan, Ranger, string), compared with a Set without that history")
    gen_and_replay(rep, wd, exe, "Gen_C05.tla", "C05", {"MaxLen": 2 if tier == "quick" else 3}, {})
    # what a range binds is that iteration's value: copied out of the loop it stays what it was (loop-variable capture
    # for 8 ranger kinds x 3 forms x {:=, =}, two-entry maps in both orders - the families of Gen_C07)
    gen_and_replay(rep, wd, exe, "Gen_C07.tla", "C05_capture", {"Depth": 0}, {"Kinds": "ScopeKinds"}, trace_execs=0)
    # conditions that are expressions: every tree of up to two operators (13 binary operators, not, ?:) over truthy and
    # falsy operands of every kind and recording probes (JetExpr) as the condition of an if and of an else-if
    import json, os
    vec = os.path.join(wd, "cond.ndjson")
    with open(vec, "w") as sink:
        r = run_tlc(wd, "MC_Expr.tla", "MC_Expr_cond.cfg", workers=8, heap="4g", timeout=1200, keep_vecs=False, vec_sink=sink, deque=True)
    need_ok(r, "MC_Expr_cond")
    rep.add_tlc(r, "MC_Expr_cond")
    replay_vectors(rep, exe, "replay-C05cond", vec, shards=4)
    rep.exhaustive = True

def replay(path):
    import json
    case = json.load(open(path))["case"]
    if case.get("replay_cmd") == "replay-C05cond":
        exe = build_harness()
        wd = scratch()
        v = os.path.join(wd, "v.ndjson")
        open(v, "w").write(json.dumps(case["vector"]) + "\n")
        run_harness(exe, ["replay-C05cond", v, v + ".res"])
        r = json.loads(open(v + ".res").readline())
        print(json.dumps(r, indent=1)[:4000])
        return 0 if r["ok"] else 1
    return replay_one(path)

"""C05: if renders one branch; range once per element. spec: JetExec.tla (DoIf, DoRange, RangeStep), Gen_C05.tla."""
from execfam import *

def run(rep, tier, seed):
    wd = spec_scratch()
    exe = build_harness()
    rep.rule = ("programs: single if over 27 condition values of every Go kind x else/no else; else-if chains of 3 with all truth "
                "assignments (with and without if-let); range over 11 subject kinds x lengths 0..2 (quick) / 0..3 (thorough) x "
                "zero/one/two-variable forms x {:=, =} x '_' in either slot x else/no else; nested ranges over every pair of "
                "index-providing kinds; loop variables captured into outer variables; all non-trivial; distinct by program. Maps with >1 entry are compared as multisets")
    gen_and_replay(rep, wd, exe, "Gen_C05.tla", "C05", {"MaxLen": 2 if tier == "quick" else 3}, {})
    # what a range binds is that iteration's value: copied out of the loop it stays what it was (loop-variable capture
    # for 8 ranger kinds x 3 forms x {:=, =}, two-entry maps in both orders - the families of Gen_C07)
    gen_and_replay(rep, wd, exe, "Gen_C07.tla", "C05_capture", {"Depth": 0}, {"Kinds": "ScopeKinds"}, trace_execs=0)
    rep.exhaustive = True

def replay(path):
    return replay_one(path)

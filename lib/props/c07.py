"""C07: lexical scoping, stable variables, '.' restored. spec: JetExec.tla, Gen_C07.tla."""
from execfam import *

def run(rep, tier, seed):
    wd = spec_scratch()
    exe = build_harness()
    rep.rule = ("programs: every wrapper path of depth <=2 (quick) / <=3 over the state-pushing kinds (thorough) around a focal in "
                "{reads, rebind outer, shadow, rebind/shadow VarMap entry, shadow global, assign undeclared, multi}, with reads of "
                "every name and '.' before, inside and after; plus loop-variable capture for 8 ranger kinds x 3 forms x {:=,=}; "
                "every program non-trivial; distinct by program")
    gen_and_replay(rep, wd, exe, "Gen_C07.tla", "C07_d2", {"Depth": 2}, {"Kinds": "ScopeKinds"})
    if tier == "thorough":
        gen_and_replay(rep, wd, exe, "Gen_C07.tla", "C07_d3", {"Depth": 3}, {"Kinds": "CoreKinds"}, timeout=6000)
    # F41 (repaired): isset swallowing a failure of an exec'd template without restoring '.' and the yield content
    asis_refuted(rep, wd, "Gen_C07.tla", "C07_asis_isset", {"Depth": 2, "FixIsSet": "FALSE"}, {"Kinds": "ScopeKinds"},
                 ("IsSetRestoresState",))
    repo_suite_traces(rep, wd)
    random_program_traces(rep, wd, exe, seed, 1500 if tier == "quick" else 12000, 4 if tier == "quick" else 5)
    rep.exhaustive = True

def replay(path):
    return replay_one(path)

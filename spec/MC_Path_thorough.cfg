SPECIFICATION Spec
CONSTANTS
  MaxSegs = 4
  MaxDepth = 2
  ExtLists <- cExtLists
  Emit = TRUE
INVARIANTS CanonClean CanonIdempotent CallsCanonical NoOpSegmentsIrrelevant EmitVec
CHECK_DEADLOCK FALSE

----------------------------- MODULE JetLexProc -----------------------------
(***************************************************************************)
(* The lexer goroutine and the parser as two processes over an unbuffered  *)
(* channel (C02: parsing never hangs and leaves no goroutine behind).      *)
(* Lexer: emits items (a send blocks until the parser receives), may stop  *)
(* early with an error item, closes the channel when its state machine     *)
(* ends.  Parser: receives items; on success it has consumed the EOF item; *)
(* on a syntax error it drains the channel before returning (lex.drain in  *)
(* Template.recover); the named bad path RePanicNoDrain is what recover()  *)
(* does for a runtime.Error.  Trace_LexProc.tla validates the protocol     *)
(* events of real parses against these actions.                            *)
(***************************************************************************)
EXTENDS Integers, Sequences, TLC

CONSTANTS MaxItems,        \* items before EOF
          RePanicNoDrain   \* TRUE: model the runtime.Error path (no drain)

VARIABLES lex,      \* "emit" | "done"
          left,     \* items the lexer still has to emit before EOF / error
          lexErr,   \* the lexer will end with an error item instead of EOF
          sentEnd,  \* EOF or error item has been handed over
          closed,   \* channel closed
          par       \* "parse" | "drain" | "returned"
vars == <<lex, left, lexErr, sentEnd, closed, par>>

Init == /\ lex = "emit" /\ left \in 0..MaxItems /\ lexErr \in BOOLEAN /\ sentEnd = FALSE /\ closed = FALSE /\ par = "parse"

\* rendezvous: the lexer's send and the parser's receive happen together
HandOverItem == /\ lex = "emit" /\ left > 0 /\ par \in {"parse", "drain"}
                /\ left' = left - 1 /\ UNCHANGED <<lex, lexErr, sentEnd, closed, par>>
\* the final item (EOF, or the lexer's error item); what the parser makes of it is the parser's own next step
HandOverEnd  == /\ lex = "emit" /\ left = 0 /\ ~sentEnd /\ par \in {"parse", "drain"}
                /\ sentEnd' = TRUE
                /\ UNCHANGED <<lex, left, lexErr, closed, par>>
\* after the last item the lexer's state function returns nil: close(items), goroutine ends
LexClose == /\ lex = "emit" /\ sentEnd /\ closed' = TRUE /\ lex' = "done" /\ UNCHANGED <<left, lexErr, sentEnd, par>>
\* the parser raises an error: anywhere in the stream, on the lexer's error item, or after EOF ("unexpected EOF")
SyntaxError == /\ par = "parse"
               /\ par' = IF RePanicNoDrain THEN "returned" ELSE "drain"
               /\ UNCHANGED <<lex, left, lexErr, sentEnd, closed>>
\* an error item is never ignored
MustFail == sentEnd /\ lexErr /\ SyntaxError
\* parseTemplate ends at EOF: Template.parse returns the template
ParseOK == /\ par = "parse" /\ sentEnd /\ ~lexErr
           /\ par' = "returned" /\ UNCHANGED <<lex, left, lexErr, sentEnd, closed>>
\* drain: for range l.items {} ends when the channel is closed
DrainDone == /\ par = "drain" /\ closed /\ par' = "returned" /\ UNCHANGED <<lex, left, lexErr, sentEnd, closed>>

Next == HandOverItem \/ HandOverEnd \/ LexClose \/ SyntaxError \/ ParseOK \/ DrainDone
Spec == Init /\ [][Next]_vars /\ WF_vars(HandOverItem) /\ WF_vars(HandOverEnd) /\ WF_vars(LexClose) /\ WF_vars(DrainDone)
             /\ WF_vars(ParseOK) /\ WF_vars(MustFail)

TypeOK == lex \in {"emit", "done"} /\ par \in {"parse", "drain", "returned"} /\ left \in 0..MaxItems
ClosedOnce == closed => lex = "done"
\* the only state without a successor is the good one: parser returned, lexer goroutine gone
NoStuck == (~ENABLED Next) => (par = "returned" /\ lex = "done")
\* parsing never hangs and leaves no goroutine running
ParserReturns == <>(par = "returned")
NoLeak == (par = "returned") ~> (lex = "done")
=============================================================================

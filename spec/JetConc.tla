------------------------------- MODULE JetConc -------------------------------
(***************************************************************************)
(* Concurrent use of one Set (C11).  N goroutines each run a short program *)
(* over GetTemplate / Execute / AddGlobal / LookupGlobal / loader edits.   *)
(* GetTemplate is decomposed at the granularity at which the real code     *)
(* talks to Cache and Loader (cache probe, loader probe, open+parse, cache  *)
(* put), the other operations are atomic at their lock: Execute reads the   *)
(* global once.  TLC explores every interleaving; each behaviour is a       *)
(* schedule (sequence of <<goroutine, step>>) with the result every         *)
(* operation must produce, replayed on the real Set by a gate-driven        *)
(* scheduler.                                                               *)
(***************************************************************************)
EXTENDS Integers, Sequences, FiniteSets, TLC, Json

CONSTANTS Programs,    \* set of assignments: sequence (one per goroutine) of sequences of operations
          Emit

\* operations: uniform records
Op(k, n, v) == [k |-> k, n |-> n, v |-> v]
GT(n)    == Op("GT", n, 0)        \* GetTemplate(n) then keep the handle
EX(n)    == Op("EX", n, 0)        \* Execute the handle obtained for n: renders "<n#version:g=value>"
AG(v)    == Op("AG", "g", v)      \* AddGlobal("g", v)
LG       == Op("LG", "g", 0)      \* LookupGlobal("g")
LS(n, v) == Op("LS", n, v)        \* loader.Set(n, version v)
PA(n)    == Op("PA", n, 0)        \* Set.Parse of a template that extends n: looks n up, never caches
EXI(n)   == Op("EXI", n, 0)       \* Execute a (pre-parsed) template whose body is {{include "n"}}: run-time lookup, caches

Names == {"a", "b"}

VARIABLES prog, pc, phase, handle, files, cache, glob, results, sched
vars == <<prog, pc, phase, handle, files, cache, glob, results, sched>>
Procs == 1..Len(prog)

Init == /\ prog \in Programs
        /\ pc = [p \in 1..Len(prog) |-> 1]
        /\ phase = [p \in 1..Len(prog) |-> "start"]
        /\ handle = [p \in 1..Len(prog) |-> [n \in Names |-> 0]]      \* version of the template each goroutine holds
        /\ files = [n \in Names |-> 1]                                  \* loader: version of each file
        /\ cache = [n \in Names |-> 0]                                  \* 0 = not cached, else cached version
        /\ glob = 0
        /\ results = [p \in 1..Len(prog) |-> <<>>]
        /\ sched = <<>>

Cur(p) == prog[p][pc[p]]
Running(p) == pc[p] <= Len(prog[p])
Finish(p, res) == /\ pc' = [pc EXCEPT ![p] = @ + 1] /\ phase' = [phase EXCEPT ![p] = "start"]
                  /\ results' = [results EXCEPT ![p] = Append(@, res)]
Log(p, step) == sched' = Append(sched, <<p, step>>)

\* GetTemplate, step 1: probe the cache
Lookups == {"GT", "PA", "EXI"}
\* what a finished lookup of version v yields for the operation
ResultOf(o, v) == IF o.k = "EXI" THEN 10 * v + glob ELSE v
\* Execute of the including template first reaches its include action
ExecIncludeStart(p) ==
  /\ Running(p) /\ Cur(p).k = "EXI" /\ phase[p] = "start"
  /\ phase' = [phase EXCEPT ![p] = "lookup"]
  /\ Log(p, "exec") /\ UNCHANGED <<prog, pc, handle, files, cache, glob, results>>
CacheGet(p) ==
  /\ Running(p) /\ Cur(p).k \in Lookups
  /\ phase[p] = (IF Cur(p).k = "EXI" THEN "lookup" ELSE "start")
  /\ LET n == Cur(p).n IN
     IF cache[n] # 0
     THEN /\ handle' = [handle EXCEPT ![p][n] = IF Cur(p).k = "GT" THEN cache[n] ELSE @]
          /\ Finish(p, ResultOf(Cur(p), cache[n]))
     ELSE /\ phase' = [phase EXCEPT ![p] = "exists"] /\ UNCHANGED <<pc, handle, results>>
  /\ Log(p, "cget") /\ UNCHANGED <<prog, files, cache, glob>>
\* step 2: loader.Exists
LoaderExists(p) ==
  /\ Running(p) /\ Cur(p).k \in Lookups /\ phase[p] = "exists"
  /\ phase' = [phase EXCEPT ![p] = "open"]
  /\ Log(p, "lexists") /\ UNCHANGED <<prog, pc, handle, files, cache, glob, results>>
\* step 3: loader.Open + read + parse: the version of the file as it is now
LoaderOpen(p) ==
  /\ Running(p) /\ Cur(p).k \in Lookups /\ phase[p] = "open"
  /\ LET n == Cur(p).n  v == files[n] IN
     IF Cur(p).k = "PA"
     THEN \* Parse never caches what it pulls in: the lookup ends here
          /\ Finish(p, v) /\ UNCHANGED handle
     ELSE /\ handle' = [handle EXCEPT ![p][n] = v]
          /\ phase' = [phase EXCEPT ![p] = "put"] /\ UNCHANGED <<pc, results>>
  /\ Log(p, "lopen") /\ UNCHANGED <<prog, files, cache, glob>>
\* step 4: cache.Put
CachePut(p) ==
  /\ Running(p) /\ Cur(p).k \in {"GT", "EXI"} /\ phase[p] = "put"
  /\ cache' = [cache EXCEPT ![Cur(p).n] = handle[p][Cur(p).n]]
  /\ Finish(p, ResultOf(Cur(p), handle[p][Cur(p).n]))
  /\ Log(p, "cput") /\ UNCHANGED <<prog, handle, files, glob>>

\* Execute: reads the global once; result is <<template version, global value>> (encoded 10*version + value)
Execute(p) ==
  /\ Running(p) /\ Cur(p).k = "EX" /\ handle[p][Cur(p).n] # 0
  /\ Finish(p, 10 * handle[p][Cur(p).n] + glob)
  /\ Log(p, "exec") /\ UNCHANGED <<prog, handle, files, cache, glob>>
AddGlobal(p) ==
  /\ Running(p) /\ Cur(p).k = "AG"
  /\ glob' = Cur(p).v /\ Finish(p, 0)
  /\ Log(p, "addglobal") /\ UNCHANGED <<prog, handle, files, cache>>
LookupGlobal(p) ==
  /\ Running(p) /\ Cur(p).k = "LG"
  /\ Finish(p, glob)
  /\ Log(p, "lookup") /\ UNCHANGED <<prog, handle, files, cache, glob>>
LoaderSet(p) ==
  /\ Running(p) /\ Cur(p).k = "LS"
  /\ files' = [files EXCEPT ![Cur(p).n] = Cur(p).v] /\ Finish(p, 0)
  /\ Log(p, "lset") /\ UNCHANGED <<prog, handle, cache, glob>>

Next == \E p \in Procs : ExecIncludeStart(p) \/ CacheGet(p) \/ LoaderExists(p) \/ LoaderOpen(p) \/ CachePut(p) \/ Execute(p)
                          \/ AddGlobal(p) \/ LookupGlobal(p) \/ LoaderSet(p)
Spec == Init /\ [][Next]_vars /\ WF_vars(Next)

AllDone == \A p \in Procs : ~Running(p)
\* no goroutine is ever stuck: as long as one has work left, some step is enabled
NoDeadlock == AllDone \/ ENABLED Next
\* Set.Parse never adds to the cache: only GetTemplate and run-time includes do
ParseNeverCaches == [][ \A p \in Procs : (Running(p) /\ Cur(p).k = "PA" /\ pc'[p] = pc[p] + 1) => cache' = cache ]_vars
\* a cached template is a version that was actually in the loader, and every handle a goroutine holds is a real version
CacheSound == \A n \in Names : cache[n] \in 0..3
\* every GetTemplate succeeds with an existing version; every Execute renders its own template version and a global value
\* that was current at some point (serial results)
SerialResults == \A p \in Procs : \A i \in 1..Len(results[p]) :
                    LET o == prog[p][i]  r == results[p][i] IN
                    /\ o.k \in {"GT", "PA"} => r \in 1..3
                    /\ o.k = "EXI" => (r \div 10) \in 1..3 /\ (r % 10) \in 0..3
                    /\ o.k = "EX" => (r \div 10) \in 1..3 /\ (r % 10) \in 0..3
Terminates == <>AllDone

EmitVec == (Emit /\ AllDone) => PrintT(<<"VEC", ToJson([prog |-> prog, sched |-> sched, results |-> results])>>)
=============================================================================

SPECIFICATION Spec
CONSTANTS
  SpellingSeq <- cSpellings
  MaxMuts = 2
  Emit = TRUE
INVARIANTS SpellingIndependence EmitVec
CHECK_DEADLOCK FALSE

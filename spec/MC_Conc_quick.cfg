SPECIFICATION Spec
CONSTANTS
  Programs <- cProgramsQuick
  Emit = TRUE
INVARIANTS NoDeadlock CacheSound SerialResults EmitVec
PROPERTIES Terminates
CHECK_DEADLOCK FALSE

SPECIFICATION Spec
CONSTANTS
  Programs <- cProgramsQuick
  Emit = TRUE
INVARIANTS NoDeadlock CacheSound SerialResults EmitVec
PROPERTIES Terminates ParseNeverCaches
CHECK_DEADLOCK FALSE

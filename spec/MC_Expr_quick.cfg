SPECIFICATION Spec
CONSTANTS
  Shapes <- cShapesQ
  LeafPool <- cPoolQ
  BinOps <- cBinOps
  Emit = TRUE
INVARIANTS BoolOps IntClosed EmitVec
CHECK_DEADLOCK FALSE

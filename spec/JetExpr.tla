------------------------------- MODULE JetExpr -------------------------------
(***************************************************************************)
(* Expressions (C04): the documented C-like grammar as a *printer* with    *)
(* minimal parentheses (precedence ladder: unary minus, * / %, + -,        *)
(* relational, equality, logical, ?:; left associative, ?: nests right) and *)
(* an evaluator on exact rationals written from the property text: two Go  *)
(* integers combine integrally (truncating / and %), any float operand     *)
(* (every numeric literal is one) promotes, + concatenates when its left   *)
(* operand is a string, comparisons and logical operators yield booleans,  *)
(* &&, || and ?: evaluate only what they need (probe leaves log calls).    *)
(*                                                                         *)
(* The machine grows a tree shape leaf by leaf; terminal states are the    *)
(* vectors: token lists (minimal and full parentheses), expected value,    *)
(* expected probe-call order.                                              *)
(***************************************************************************)
EXTENDS Integers, Sequences, FiniteSets, TLC, Json

CONSTANTS Shapes, LeafPool, BinOps, Emit

---------------------------------------------------------------------------
(* values: uniform records; numbers are exact rationals n/d *)
V(t, n, d, s) == [t |-> t, n |-> n, d |-> d, s |-> s]
IntV(n)   == V("int", n, 1, "")
BoolV(b)  == V("bool", IF b THEN 1 ELSE 0, 1, "")
StrV(s)   == V("str", 0, 1, s)
ErrV(why) == V("err", 0, 1, why)

Abs(x) == IF x < 0 THEN -x ELSE x
RECURSIVE Gcd(_, _)
Gcd(a, b) == IF b = 0 THEN a ELSE Gcd(b, a % b)
FloatV(n, d) == LET g == Gcd(Abs(n), Abs(d))
                    s == IF d < 0 THEN -1 ELSE 1
                IN IF n = 0 THEN V("float", 0, 1, "") ELSE V("float", s * (n \div g), (s * d) \div g, "")
\* truncating division and remainder (Go semantics)
Quot(a, b) == IF (a >= 0) = (b > 0) THEN Abs(a) \div Abs(b) ELSE -(Abs(a) \div Abs(b))
Rem(a, b)  == a - b * Quot(a, b)

IsNum(v)  == v.t \in {"int", "float"}
IsErr(v)  == v.t = "err"
Truthy(v) == CASE v.t = "bool" -> v.n = 1 [] v.t \in {"int", "float"} -> v.n # 0
               [] v.t = "str" -> v.s # "" [] OTHER -> FALSE

\* decimal text of an integer (for string concatenation)
RECURSIVE Digits(_)
Digits(n) == IF n < 10 THEN ToString(n) ELSE Digits(n \div 10) \o ToString(n % 10)
IntText(n) == IF n < 0 THEN "-" \o Digits(-n) ELSE Digits(n)
Printed(v) == CASE v.t = "int" -> IntText(v.n) [] v.t = "str" -> v.s
                [] v.t = "bool" -> IF v.n = 1 THEN "true" ELSE "false" [] OTHER -> "?"

Arith(op, a, b) ==
  IF op = "+" /\ a.t = "str" THEN
       IF b.t \in {"int", "str", "bool"} THEN StrV(a.s \o Printed(b)) ELSE ErrV("concat")
  ELSE IF ~IsNum(a) \/ ~IsNum(b) THEN ErrV("operand")
  ELSE IF a.t = "int" /\ b.t = "int" THEN
       CASE op = "+" -> IntV(a.n + b.n) [] op = "-" -> IntV(a.n - b.n) [] op = "*" -> IntV(a.n * b.n)
         [] op = "/" -> IF b.n = 0 THEN ErrV("div0") ELSE IntV(Quot(a.n, b.n))
         [] op = "%" -> IF b.n = 0 THEN ErrV("div0") ELSE IntV(Rem(a.n, b.n))
  ELSE CASE op = "+" -> FloatV(a.n * b.d + b.n * a.d, a.d * b.d)
         [] op = "-" -> FloatV(a.n * b.d - b.n * a.d, a.d * b.d)
         [] op = "*" -> FloatV(a.n * b.n, a.d * b.d)
         [] op = "/" -> IF b.n = 0 THEN ErrV("div0") ELSE FloatV(a.n * b.d, a.d * b.n)
         [] op = "%" -> ErrV("floatmod")          \* outside the typed fragment

Less(a, b) == a.n * b.d < b.n * a.d
Rel(op, a, b) ==
  IF ~IsNum(a) \/ ~IsNum(b) THEN ErrV("operand")
  ELSE CASE op = "<" -> BoolV(Less(a, b)) [] op = ">" -> BoolV(Less(b, a))
         [] op = "<=" -> BoolV(~Less(b, a)) [] op = ">=" -> BoolV(~Less(a, b))
EqV(op, a, b) ==
  LET same == IF IsNum(a) /\ IsNum(b) THEN a.n * b.d = b.n * a.d
              ELSE IF a.t = b.t THEN (a.n = b.n /\ a.s = b.s) ELSE FALSE
  IN IF ~(IsNum(a) /\ IsNum(b)) /\ a.t # b.t THEN ErrV("eqkinds")      \* outside the typed fragment
     ELSE BoolV(IF op = "==" THEN same ELSE ~same)

---------------------------------------------------------------------------
(* trees: uniform records [op, kids, leaf]; leaves carry a leaf kind *)
Leaf(k)        == [op |-> "leaf", kids |-> <<>>, leaf |-> k]
Node(op, kids) == [op |-> op, kids |-> kids, leaf |-> ""]

LeafVal(k) ==
  CASE k = "iv7" -> IntV(7) [] k = "iv2" -> IntV(2) [] k = "in3" -> IntV(-3) [] k = "iv1" -> IntV(1)
    [] k = "f15" -> FloatV(3, 2) [] k = "f2" -> FloatV(2, 1) [] k = "f1" -> FloatV(1, 1) [] k = "fv025" -> FloatV(1, 4) [] k = "f32v" -> FloatV(5, 2) [] k = "u7" -> IntV(7) [] k = "u8v" -> IntV(3)
    [] k = "chr" -> FloatV(99, 1)               \* a character constant is a numeric literal like any other: a float
    [] k = "ss" -> StrV("s") [] k = "sv" -> StrV("t") [] k = "se" -> StrV("")
    [] k = "bt" -> BoolV(TRUE) [] k = "bf" -> BoolV(FALSE) [] k = "bv" -> BoolV(TRUE)
    [] k = "pt" -> BoolV(TRUE) [] k = "pf" -> BoolV(FALSE) [] k = "pi" -> IntV(7)
    [] k = "idx" -> IntV(7) [] k = "call" -> IntV(7) [] k = "paren" -> IntV(7) [] k = "fld" -> IntV(7) [] k = "cfld" -> IntV(7)
IsProbe(k) == k \in {"pt", "pf", "pi"}

\* tokens of a leaf; probes are calls p("<path>", value) whose first argument identifies the leaf
LeafToks(k, path) ==
  CASE k = "iv7" -> <<"iv7">> [] k = "iv2" -> <<"iv2">> [] k = "in3" -> <<"in3">> [] k = "iv1" -> <<"iv1">>
    [] k = "f15" -> <<"1.5">> [] k = "f2" -> <<"2">> [] k = "f1" -> <<"1">> [] k = "fv025" -> <<"fv025">> [] k = "f32v" -> <<"f32v">>    \* f32v: a Go float32 variable holding 2.5
    [] k = "chr" -> <<"'c'">>
    [] k = "u7" -> <<"u7">> [] k = "u8v" -> <<"u8v">>           \* unsigned Go integers: uint(7), uint8(3)
    [] k = "ss" -> <<"\"s\"">> [] k = "sv" -> <<"sv">> [] k = "se" -> <<"\"\"">>
    [] k = "bt" -> <<"true">> [] k = "bf" -> <<"false">> [] k = "bv" -> <<"bv">>
    [] k = "pt" -> <<"pb", "(", "\"" \o path \o "\"", ",", "true", ")">>
    [] k = "pf" -> <<"pb", "(", "\"" \o path \o "\"", ",", "false", ")">>
    [] k = "pi" -> <<"pn", "(", "\"" \o path \o "\"", ",", "iv7", ")">>
    [] k = "idx" -> <<"isl", "[", "0", "]">> [] k = "call" -> <<"idf", "(", "iv7", ")">>
    [] k = "paren" -> <<"(", "iv7", ")">> [] k = "fld" -> <<"st.Seven">>
    [] k = "cfld" -> <<".Seven">>            \* a field of the context: a sign right before it is a unary sign, not a number

Prec(n) == CASE n.op = "leaf" -> 8 [] n.op \in {"neg", "not"} -> 7
             [] n.op \in {"*", "/", "%"} -> 6 [] n.op \in {"+", "-"} -> 5
             [] n.op \in {"<", "<=", ">", ">="} -> 4 [] n.op \in {"==", "!="} -> 3
             [] n.op \in {"&&", "||"} -> 2 [] n.op = "?:" -> 1

Paren(toks) == <<"(">> \o toks \o <<")">>

\* minimal parentheses by the documented ladder; `full` = TRUE parenthesises every inner node
RECURSIVE Unparse(_, _, _)
Unparse(n, path, full) ==
  LET wrap(child, cpath, need) == LET t == Unparse(child, cpath, full) IN
                                  IF child.op # "leaf" /\ (need \/ full) THEN Paren(t) ELSE t
  IN
  CASE n.op = "leaf" -> LeafToks(n.leaf, path)
    [] n.op = "neg"  -> <<"-">> \o wrap(n.kids[1], path \o "n", TRUE)
    [] n.op = "not"  -> <<"!">> \o wrap(n.kids[1], path \o "n", TRUE)
    [] n.op = "?:"   -> wrap(n.kids[1], path \o "c", Prec(n.kids[1]) <= 1) \o <<"?">> \o
                        wrap(n.kids[2], path \o "t", FALSE) \o <<":">> \o wrap(n.kids[3], path \o "e", FALSE)
    [] OTHER ->  \* binary, left associative; a "not" child swallows what follows it, so it is always wrapped
         wrap(n.kids[1], path \o "l", Prec(n.kids[1]) < Prec(n) \/ n.kids[1].op = "not") \o <<n.op>> \o
         wrap(n.kids[2], path \o "r", Prec(n.kids[2]) <= Prec(n) \/ n.kids[2].op = "not")

\* evaluation with the probe-call log: [v, log]
R(v, log) == [v |-> v, log |-> log]
RECURSIVE Eval(_, _)
Eval(n, path) ==
  CASE n.op = "leaf" -> R(LeafVal(n.leaf), IF IsProbe(n.leaf) THEN <<path>> ELSE <<>>)
    [] n.op = "neg" -> LET a == Eval(n.kids[1], path \o "n") IN
                       IF IsErr(a.v) THEN a
                       ELSE IF a.v.t = "int" THEN R(IntV(-a.v.n), a.log)
                       ELSE IF a.v.t = "float" THEN R(FloatV(-a.v.n, a.v.d), a.log) ELSE R(ErrV("operand"), a.log)
    [] n.op = "not" -> LET a == Eval(n.kids[1], path \o "n") IN
                       IF IsErr(a.v) THEN a ELSE R(BoolV(~Truthy(a.v)), a.log)
    [] n.op = "?:"  -> LET c == Eval(n.kids[1], path \o "c") IN
                       IF IsErr(c.v) THEN c
                       ELSE LET b == IF Truthy(c.v) THEN Eval(n.kids[2], path \o "t") ELSE Eval(n.kids[3], path \o "e")
                            IN R(b.v, c.log \o b.log)
    [] n.op \in {"&&", "||"} ->
         LET a == Eval(n.kids[1], path \o "l") IN
         IF IsErr(a.v) THEN a
         ELSE IF (n.op = "&&") # Truthy(a.v) THEN R(BoolV(n.op = "||"), a.log)      \* short circuit
         ELSE LET b == Eval(n.kids[2], path \o "r") IN
              IF IsErr(b.v) THEN R(b.v, a.log \o b.log) ELSE R(BoolV(Truthy(b.v)), a.log \o b.log)
    [] OTHER ->
         LET a == Eval(n.kids[1], path \o "l")
             b == Eval(n.kids[2], path \o "r")
             log == a.log \o b.log
         IN IF IsErr(a.v) THEN R(a.v, log) ELSE IF IsErr(b.v) THEN R(b.v, log)
            ELSE IF n.op \in {"+", "-", "*", "/", "%"} THEN R(Arith(n.op, a.v, b.v), log)
            ELSE IF n.op \in {"<", "<=", ">", ">="} THEN R(Rel(n.op, a.v, b.v), log)
            ELSE R(EqV(n.op, a.v, b.v), log)

---------------------------------------------------------------------------
(* shapes: how many leaves and how they are assembled *)
Arity(sh) == CASE sh \in {"L2", "R2", "T1", "NEG3"} -> 3 [] sh \in {"B1", "NEGL", "NEGR", "NOTB", "NOTL"} -> 2
               [] sh \in {"T2L", "T2R"} -> 5 [] sh = "U" -> 1 [] sh = "L3" -> 4
NumOps(sh) == CASE sh \in {"L2", "R2", "NEG3"} -> 2 [] sh \in {"B1", "NEGL", "NEGR", "NOTB", "NOTL", "T1"} -> 1
                [] sh = "L3" -> 3 [] OTHER -> 0
Bin(o, a, b) == Node(o, <<a, b>>)
Assemble(sh, ops, lv) ==
  LET l(i) == Leaf(lv[i]) IN
  CASE sh = "U"    -> l(1)
    [] sh = "B1"   -> Bin(ops[1], l(1), l(2))
    [] sh = "L2"   -> Bin(ops[2], Bin(ops[1], l(1), l(2)), l(3))
    [] sh = "R2"   -> Bin(ops[1], l(1), Bin(ops[2], l(2), l(3)))
    [] sh = "L3"   -> Bin(ops[3], Bin(ops[2], Bin(ops[1], l(1), l(2)), l(3)), l(4))
    [] sh = "NEGL" -> Bin(ops[1], Node("neg", <<l(1)>>), l(2))
    [] sh = "NEGR" -> Bin(ops[1], l(1), Node("neg", <<l(2)>>))
    [] sh = "NEG3" -> Bin(ops[2], Bin(ops[1], l(1), Node("neg", <<l(2)>>)), l(3))
    [] sh = "NOTB" -> Node("not", <<Bin(ops[1], l(1), l(2))>>)
    [] sh = "NOTL" -> Bin(ops[1], Node("not", <<l(1)>>), l(2))
    [] sh = "T1"   -> Node("?:", <<l(1), l(2), l(3)>>)
    [] sh = "T2R"  -> Node("?:", <<l(1), l(2), Node("?:", <<l(3), l(4), l(5)>>)>>)
    [] sh = "T2L"  -> Node("?:", <<Node("?:", <<l(1), l(2), l(3)>>), l(4), l(5)>>)

VARIABLES shape, ops, leaves
vars == <<shape, ops, leaves>>

Init == /\ shape \in Shapes
        /\ ops \in [1..NumOps(shape) -> BinOps]
        /\ leaves = <<>>
Extend(k) == /\ Len(leaves) < Arity(shape)
             /\ leaves' = Append(leaves, k)
             /\ UNCHANGED <<shape, ops>>
Next == \E k \in LeafPool : Extend(k)
Spec == Init /\ [][Next]_vars

Complete == Len(leaves) = Arity(shape)
Tree     == Assemble(shape, ops, leaves)
Result   == Eval(Tree, "x")

\* the typed fragment of the property: the specification assigns a value
\* unsigned Go integers wrap instead of going negative, which the property does not describe: trees with an
\* unsigned leaf are in the fragment only when nothing in them can be negative (no unary minus, no
\* subtraction, no negative leaf)
HasUnsigned == \E i \in 1..Len(leaves) : leaves[i] \in {"u7", "u8v"}
MayBeNegative == \/ \E i \in 1..Len(leaves) : leaves[i] = "in3"
                 \/ \E i \in 1..Len(ops) : ops[i] = "-"
                 \/ shape \in {"NEGL", "NEGR", "NEG3"}
InFragment == ~IsErr(Result.v) /\ ~(HasUnsigned /\ MayBeNegative)

\* contract sanity: comparisons and logical operators always yield a boolean
BoolOps == Complete /\ InFragment /\ Tree.op \in {"<", "<=", ">", ">=", "==", "!=", "&&", "||", "not"} => Result.v.t = "bool"
\* integers combine integrally
IntClosed == Complete /\ InFragment /\ Tree.op \in {"+", "-", "*", "/", "%"} /\
             (\A i \in 1..Len(leaves) : LeafVal(leaves[i]).t = "int") => Result.v.t = "int"

EmitVec == (Emit /\ Complete /\ InFragment) =>
  PrintT(<<"VEC", ToJson([shape |-> shape, ops |-> ops, leaves |-> leaves,
                          toks |-> Unparse(Tree, "x", FALSE), full |-> Unparse(Tree, "x", TRUE),
                          v |-> Result.v, log |-> Result.log])>>)
=============================================================================

------------------------------- MODULE Gen_C18 -------------------------------
(* C18 (Runtime part): from inside a custom function, Let/Set/SetOrLet/LetGlobal/ *)
(* Resolve/Context/YieldBlock act on the scopes of the call site like :=, =,      *)
(* identifier lookup, '.', and {{yield name() ctx}}.                              *)
EXTENDS JetProg
CONSTANTS Depth, Families     \* Families: subset of {"site", "top"}

Ops == {"Let-s", "Let-x3", "Set-s", "Set-p", "Set-undef", "SetOrLet-s", "SetOrLet-x3", "SetOrLet-g", "SetOrLet-p", "LetGlobal-x3", "LetGlobal-s", "Yield-yc", "Yield-ycdef", "SetOrLet-nil", "Set-undef-nil", "Exec-own",
        "Resolve-s", "Resolve-g", "Resolve-undef", "Context", "Yield-ctx", "Yield-noctx", "Yield-undef", "tl-let", "tl-set"}
SiteKinds == {"range", "rangekv", "ycont", "ybody", "include", "includectx", "iflet", "let", "blockdef", "tryin"}

OpStmt(o, i) ==
  LET id == "op" \o ToString(i) IN
  CASE o = "Let-s"        -> Api(id, "Let", "s", Lit("L" \o ToString(i)))
    [] o = "Let-x3"       -> Api(id, "Let", "x3", Lit("L" \o ToString(i)))
    [] o = "Set-s"        -> Api(id, "Set", "s", Lit("S" \o ToString(i)))
    [] o = "Set-p"        -> Api(id, "Set", "p", Lit("S" \o ToString(i)))
    [] o = "Set-undef"    -> Api(id, "Set", "r", Lit("S" \o ToString(i)))
    [] o = "SetOrLet-s"   -> Api(id, "SetOrLet", "s", Lit("O" \o ToString(i)))
    [] o = "SetOrLet-x3"  -> Api(id, "SetOrLet", "x3", Lit("O" \o ToString(i)))
    [] o = "SetOrLet-g"   -> Api(id, "SetOrLet", "g", Lit("O" \o ToString(i)))
    [] o = "SetOrLet-p"   -> Api(id, "SetOrLet", "p", Lit("O" \o ToString(i)))
    \* the untyped nil as the value: SetOrLet declares the variable (holding nil) like x3 := nil, Set still fails
    [] o = "SetOrLet-nil" -> Api(id, "SetOrLet", "x3", Lit(Nil))
    [] o = "Set-undef-nil" -> Api(id, "Set", "r", Lit(Nil))
    [] o = "LetGlobal-x3" -> Api(id, "LetGlobal", "x3", Lit("G" \o ToString(i)))
    [] o = "LetGlobal-s"  -> Api(id, "LetGlobal", "s", Lit("G" \o ToString(i)))
    [] o = "Resolve-s"    -> Api(id, "Resolve", "s", NoE)
    [] o = "Resolve-g"    -> Api(id, "Resolve", "g", NoE)
    [] o = "Resolve-undef"-> Api(id, "Resolve", "r", NoE)
    [] o = "Context"      -> Api(id, "Context", "", NoE)
    [] o = "Yield-ctx"    -> [Api(id, "YieldBlock", "ab", NoE) EXCEPT !.e2 = Lit("yc" \o ToString(i))]
    [] o = "Yield-noctx"  -> Api(id, "YieldBlock", "ab", NoE)
    \* the yielded block renders {{yield content}}: YieldBlock leaves the enclosing content as it is
    [] o = "Yield-yc"     -> Api(id, "YieldBlock", "aby", NoE)
    \* ... also when the block declares a {{content}} section of its own (that one is for its definition site only)
    [] o = "Yield-ycdef"  -> Api(id, "YieldBlock", "abyc", NoE)
    \* exec() of a template that has a block "ab" of its own, outside any := - what YieldBlock("ab") renders afterwards
    \* is still the block visible at the call site
    [] o = "Exec-own"     -> IsSetExec(id, "calown")
    [] o = "Yield-undef"  -> Api(id, "YieldBlock", "nosuchblock", NoE)
    [] o = "tl-let"       -> LetS(id, "x3", Lit("T" \o ToString(i)))
    [] o = "tl-set"       -> SetS(id, "s", Lit("T" \o ToString(i)))

Reads(pfx) == << P(pfx \o "s", Var("s")), P(pfx \o "p", Var("p")), P(pfx \o "g", Var("g")), P(pfx \o "i3", IsSetE("x3")),
                 P(pfx \o "ctx", Ctx) >>

\* API calls at the top level of a template executed with a nil VarMap and no := before them
MkTop(par) ==
  LET ops == par[3]
      opl  == [i \in 1..Len(ops) |-> OpStmt(ops[i], i)]
      \* the same calls one scope down (still no VarMap and no := above them): LetGlobal reaches the outermost scope
      body == IF par[2] = <<>> THEN opl
              ELSE <<RangeS("tr", "kv", "k", "v", ":=", ListE("ints", <<"0">>), opl \o <<P("ri3", IsSetE("x3"))>>)>>
      main == <<T("pre")>> \o body \o
              <<P("zi3", IsSetE("x3")), P("zis", IsSetE("s")), P("zg", Var("g")), T("post")>>
      \* a later execution, again without variables, sees nothing of what the calls bound
      probe == <<T("q0"), P("qi3", IsSetE("x3")), P("qis", IsSetE("s")), P("qg", Var("g")), T("q1")>>
  IN [ts |-> <<Tm("main", "", <<>>, main), Tm("probe", "", <<>>, probe)>>, globals |-> [NoVarsMap EXCEPT !["g"] = "glG"],
      runs |-> <<RunR("main", NoVarsMap, "D"), RunR("probe", NoVarsMap, "D")>>, tag |-> "nilvars|" \o (IF par[2] = <<>> THEN "" ELSE "inrange|") \o PathTag(ops)]
TopOps == {"Let-x3", "Let-s", "SetOrLet-x3", "SetOrLet-g", "LetGlobal-x3", "Resolve-g", "Resolve-undef", "Context", "Set-undef"}

MkC(par) ==
  IF par[1] = "top" THEN MkTop(par) ELSE
  LET path == par[2]  ops == par[3]
      focal == <<T("f0")>> \o [i \in 1..Len(ops) |-> OpStmt(ops[i], i)] \o Reads("f")
      r     == Build(path, 1, focal)
      main  == <<T("pre"), LetS("ls", "s", Lit("s0"))>> \o r.main \o Reads("z") \o <<T("post")>>
      lib   == Tm("lib", "", <<>>, r.bl \o <<BlockS("abd", "ab", <<>>, NoE, <<T("AB("), P("abc", Ctx), P("abs", Var("s")), T(")")>>),
                                        BlockS("abyd", "aby", <<>>, NoE, <<T("ABY("), YContent("abyy"), T(")")>>),
                                        BlockC("abycd", "abyc", <<>>, NoE, <<T("ABYC("), YContent("abycy"), T(")")>>, <<T("DEFAULT")>>)>>)
      calown == Tm("calown", "", <<>>, <<T("co0"), BlockS("cob", "ab", <<>>, NoE, <<T("CALAB")>>), T("co1")>>)
  IN [ts |-> <<Tm("main", "", <<"lib">>, main), lib, calown>> \o r.ts,
      globals |-> [NoVarsMap EXCEPT !["g"] = "glG"],
      \* the second execution has no data: '.' is invalid at the call site and must be so again after the call
      runs |-> <<RunR("main", [NoVarsMap EXCEPT !["p"] = "vmP"], "D"), RunR("main", [NoVarsMap EXCEPT !["p"] = "vmP"], Nil)>>,
      tag |-> PathTag(path) \o "|" \o PathTag(ops)]

OpSeqs == UNION {[1..n -> Ops] : n \in 1..2}
cParams == (IF "site" \in Families THEN {p \in {"site"} \X PathsUpTo(SiteKinds, Depth) \X OpSeqs : Len(p[2]) <= 1 \/ Len(p[3]) = 1} ELSE {})
           \cup (IF "top" \in Families THEN {"top"} \X {<<>>, <<"range">>} \X UNION {[1..n -> TopOps] : n \in 1..2} ELSE {})
=============================================================================

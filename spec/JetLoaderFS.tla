---------------------------- MODULE JetLoaderFS ----------------------------
(***************************************************************************)
(* Directory-rooted loaders (OS, http.FileSystem, embed.FS) and the multi  *)
(* loader (C19).  A tree maps node positions to none | dir | file; a       *)
(* loader over a tree reports exactly its regular files; a multi loader    *)
(* over a stack of loaders answers from the first one that has the path.   *)
(***************************************************************************)
EXTENDS Naturals, Sequences, FiniteSets, TLC, Json

CONSTANTS MaxStack, Emit

NodePaths  == {<<"a">>, <<"b">>, <<"a", "a">>, <<"a", "b">>}
QuerySeq   == << <<"a">>, <<"b">>, <<"a", "a">>, <<"a", "b">>, <<>>, <<"a", "a", "a">>, <<"b", "a">>, <<"c">>, <<"a", "c">> >>
QueryPaths == {QuerySeq[i] : i \in 1..Len(QuerySeq)}
Kinds      == {"none", "dir", "file"}

Parent(p) == SubSeq(p, 1, Len(p) - 1)
WellFormed(t) == \A p \in NodePaths : (Len(p) > 1 /\ t[p] # "none") => t[Parent(p)] = "dir"
Trees == {t \in [NodePaths -> Kinds] : WellFormed(t)}

\* contract of one directory-rooted loader
HasFile(t, p) == p \in NodePaths /\ t[p] = "file"

VARIABLES stack
vars == <<stack>>

Init == stack = <<>>
AddLoader(t) == Len(stack) < MaxStack /\ stack' = Append(stack, t)
Next == \E t \in Trees : AddLoader(t)
Spec == Init /\ [][Next]_vars

\* contract of the multi loader
Owners(p)  == {i \in 1..Len(stack) : HasFile(stack[i], p)}
MExists(p) == Owners(p) # {}
MOwner(p)  == IF Owners(p) = {} THEN 0 ELSE CHOOSE i \in Owners(p) : \A j \in Owners(p) : i <= j

NeverDirectories == \A p \in QueryPaths : MExists(p) => \E i \in 1..Len(stack) : stack[i][p] = "file"
FirstLoaderWins  == \A p \in QueryPaths : MExists(p) => \A j \in 1..(MOwner(p) - 1) : ~HasFile(stack[j], p)

TreeJson(t) == [a |-> t[<<"a">>], b |-> t[<<"b">>], aa |-> t[<<"a", "a">>], ab |-> t[<<"a", "b">>]]
QSeq == [i \in 1..Len(QuerySeq) |-> [p |-> QuerySeq[i], exists |-> MExists(QuerySeq[i]), owner |-> MOwner(QuerySeq[i])]]

EmitVec == (Emit /\ Len(stack) >= 1) =>
             PrintT(<<"VEC", ToJson([stack |-> [i \in 1..Len(stack) |-> TreeJson(stack[i])], queries |-> QSeq])>>)
=============================================================================

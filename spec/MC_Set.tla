------------------------------- MODULE MC_Set -------------------------------
EXTENDS JetSet
F(k, v, x) == [k |-> k, v |-> v, x |-> x]
A == NoF
W1 == [p \in FilePaths |-> IF p = "/x.jet" THEN F("ok", 1, TRUE) ELSE IF p = "/y.jet" THEN F("ok", 1, FALSE) ELSE A]
W2 == [p \in FilePaths |-> IF p = "/x" THEN F("ok", 1, TRUE) ELSE IF p = "/x.jet" THEN F("ok", 1, FALSE)
                           ELSE IF p = "/y" THEN F("ok", 1, FALSE) ELSE A]
W3 == [p \in FilePaths |-> IF p \in XPaths THEN F("ok", 1, p = "/x") ELSE F("ok", 1, FALSE)]
W4 == [p \in FilePaths |-> A]
W5 == [p \in FilePaths |-> IF p = "/x.jet" THEN F("bad", 1, FALSE) ELSE IF p = "/y" THEN F("openfail", 1, FALSE) ELSE A]
cWorlds == {W1, W2, W3, W4, W5}
cExtsDefault == <<"", ".jet">>
cExtsNoEmpty == <<".jet">>
cExtsRev == <<".jet", "">>
cExtsLong == <<".a", ".b", ".c", ".d", ".jet">>     \* more candidates than the default list has entries
=============================================================================

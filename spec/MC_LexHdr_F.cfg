SPECIFICATION Spec
CONSTANTS
  LD <- F_LD
  RD <- F_RD
  LC <- F_LC
  RC <- F_RC
  Alphabet <- F_HdrTok
  Headers <- SomeHeaders
  MaxLen = 4
  Emit = TRUE
INVARIANTS NoInvention EmitVec
CHECK_DEADLOCK FALSE

-------------------------- MODULE Trace_LoaderMem --------------------------
(* code -> spec for the in-memory loader: random Set/Delete/Exists/Open with *)
(* long random spellings recorded from the real InMemLoader.                 *)
EXTENDS JetLoaderMem

Trace == ndJsonDeserialize("trace_mem.ndjson")
VARIABLE l
tvars == <<mem, muts, l>>
Ev == Trace[l]
Sp == [abs |-> Ev.abs, segs |-> Ev.segs]
IsEvent(op) == l <= Len(Trace) /\ Ev.op = op /\ l' = l + 1

cEmptySeq == <<>>
TraceInit == Init /\ l = 1
Reset   == IsEvent("init") /\ mem' = [k \in {} |-> Absent] /\ muts' = <<>>
TrSet   == IsEvent("Set") /\ mem' = Put(mem, Norm(Sp), Ev.c) /\ muts' = <<>>
TrDel   == IsEvent("Delete") /\ mem' = Put(mem, Norm(Sp), Absent) /\ muts' = <<>>
TrQuery == IsEvent("Query") /\ Ev.exists = Exists(Sp)
           /\ (Exists(Sp) => (Ev.openok /\ Ev.content = Open(Sp)))
           /\ (~Exists(Sp) => ~Ev.openok)
           /\ UNCHANGED <<mem, muts>>
TraceNext == Reset \/ TrSet \/ TrDel \/ TrQuery
TraceSpec == TraceInit /\ [][TraceNext]_tvars
TraceAccepted ==
  LET n == TLCGet("stats").diameter - 1 IN
  IF n = Len(Trace) THEN TRUE ELSE PrintT(<<"TRACE-REJECTED-AFTER", n>>) /\ FALSE
=============================================================================

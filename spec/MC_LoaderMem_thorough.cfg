SPECIFICATION Spec
CONSTANTS
  SpellingSeq <- cSpellings
  MaxMuts = 3
  Emit = TRUE
INVARIANTS SpellingIndependence EmitVec
CHECK_DEADLOCK FALSE

SPECIFICATION Spec
CONSTANTS
  LD <- A_LD
  RD <- A_RD
  LC <- A_LC
  RC <- A_RC
  Alphabet <- A_HdrTok
  Headers <- SomeHeaders
  MaxLen = 4
  Emit = TRUE
INVARIANTS NoInvention EmitVec
CHECK_DEADLOCK FALSE

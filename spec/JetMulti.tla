------------------------------ MODULE JetMulti ------------------------------
(***************************************************************************)
(* The multi loader over loaders that change (C19): a stack of in-memory   *)
(* loaders is edited (Set / Delete on one member) between look-ups through *)
(* the multi loader.  Contract: every Exists and every Open is answered by *)
(* the first member that has the path *now* - nothing a previous look-up   *)
(* found is remembered.  The stack is nested: the outer multi loader holds *)
(* an inner multi loader and the last member; the inner one gains members  *)
(* (AddLoaders) or loses all of them (ClearLoaders) while the outer one is *)
(* in use, and the outer one sees that.  A history of operations with the  *)
(* expected answers is one vector.                                         *)
(***************************************************************************)
EXTENDS Naturals, Sequences, FiniteSets, TLC, Json

CONSTANTS NLoaders, MaxOps, Emit

Paths == {"a", "b"}
None  == ""

VARIABLES files,   \* files[i][p]: content of path p in member i, or None
          inner,   \* members of the inner multi loader, in order (a sequence over 1..NLoaders-1)
          hist     \* operations so far, with the answers of the look-ups
vars == <<files, inner, hist>>

Init == files = [i \in 1..NLoaders |-> [p \in Paths |-> None]] /\ inner = <<1>> /\ hist = <<>>

\* look-up order of the outer loader: the inner loader's members, then member NLoaders
Order == Append(inner, NLoaders)
Pos(p) == {k \in 1..Len(Order) : files[Order[k]][p] # None}
Owner(p)  == IF Pos(p) = {} THEN 0 ELSE Order[CHOOSE k \in Pos(p) : \A j \in Pos(p) : k <= j]

Op(k, i, p, ans) == [op |-> k, l |-> i, p |-> p, ans |-> ans]
More == Len(hist) < MaxOps

\* the content written identifies member, path and the position of the edit in the history
DoSet(i, p) == /\ More
               /\ LET c == "L" \o ToString(i) \o ":" \o p \o "#" \o ToString(Len(hist) + 1) IN
                  /\ files' = [files EXCEPT ![i][p] = c]
                  /\ hist' = Append(hist, Op("set", i, p, c)) /\ UNCHANGED inner
DoDelete(i, p) == /\ More /\ files[i][p] # None
                  /\ files' = [files EXCEPT ![i][p] = None]
                  /\ hist' = Append(hist, Op("delete", i, p, "")) /\ UNCHANGED inner
DoExists(p) == /\ More /\ hist' = Append(hist, Op("exists", 0, p, IF Owner(p) = 0 THEN "no" ELSE "yes")) /\ UNCHANGED <<files, inner>>
DoOpen(p)   == /\ More /\ hist' = Append(hist, Op("open", 0, p, IF Owner(p) = 0 THEN "ERR" ELSE files[Owner(p)][p])) /\ UNCHANGED <<files, inner>>
\* inner.AddLoaders(member i) / inner.ClearLoaders() while the outer loader is in use
DoAddInner(i) == /\ More /\ i \in 2..(NLoaders - 1) /\ \A k \in 1..Len(inner) : inner[k] # i
                 /\ inner' = Append(inner, i) /\ hist' = Append(hist, Op("addinner", i, "", "")) /\ UNCHANGED files
DoClearInner  == /\ More /\ inner # <<>>
                 /\ inner' = <<>> /\ hist' = Append(hist, Op("clearinner", 0, "", "")) /\ UNCHANGED files

Next == \/ \E p \in Paths : DoExists(p) \/ DoOpen(p) \/ \E i \in 1..NLoaders : DoSet(i, p) \/ DoDelete(i, p)
        \/ DoClearInner \/ \E i \in 1..NLoaders : DoAddInner(i)
Spec == Init /\ [][Next]_vars

\* sanity of the contract: an answer never comes from a member behind one that has the path
FirstWins == \A p \in Paths : Owner(p) # 0 =>
               \A k \in 1..Len(Order) : (files[Order[k]][p] # None /\ Order[k] # Owner(p)) =>
                   \E j \in 1..(k - 1) : Order[j] = Owner(p)

\* only histories that end in a look-up and contain an edit are worth replaying
Interesting == /\ hist # <<>> /\ hist[Len(hist)].op \in {"exists", "open"}
               /\ \E k \in 1..Len(hist) : hist[k].op \in {"set", "delete"}
               /\ \E k \in 1..Len(hist) : hist[k].op = "set"
EmitVec == (Emit /\ Interesting) => PrintT(<<"VEC", ToJson([n |-> NLoaders, hist |-> hist])>>)
=============================================================================

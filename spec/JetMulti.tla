------------------------------ MODULE JetMulti ------------------------------
(***************************************************************************)
(* The multi loader over loaders that change (C19): a stack of in-memory   *)
(* loaders is edited (Set / Delete on one member) between look-ups through *)
(* the multi loader.  Contract: every Exists and every Open is answered by *)
(* the first member that has the path *now* - nothing a previous look-up   *)
(* found is remembered.  A history of operations with the expected answers *)
(* is one vector.                                                          *)
(***************************************************************************)
EXTENDS Naturals, Sequences, FiniteSets, TLC, Json

CONSTANTS NLoaders, MaxOps, Emit

Paths == {"a", "b"}
None  == ""

VARIABLES files,   \* files[i][p]: content of path p in member i, or None
          hist     \* operations so far, with the answers of the look-ups
vars == <<files, hist>>

Init == files = [i \in 1..NLoaders |-> [p \in Paths |-> None]] /\ hist = <<>>

Owners(p) == {i \in 1..NLoaders : files[i][p] # None}
Owner(p)  == IF Owners(p) = {} THEN 0 ELSE CHOOSE i \in Owners(p) : \A j \in Owners(p) : i <= j

Op(k, i, p, ans) == [op |-> k, l |-> i, p |-> p, ans |-> ans]
More == Len(hist) < MaxOps

\* the content written identifies member, path and the position of the edit in the history
DoSet(i, p) == /\ More
               /\ LET c == "L" \o ToString(i) \o ":" \o p \o "#" \o ToString(Len(hist) + 1) IN
                  /\ files' = [files EXCEPT ![i][p] = c]
                  /\ hist' = Append(hist, Op("set", i, p, c))
DoDelete(i, p) == /\ More /\ files[i][p] # None
                  /\ files' = [files EXCEPT ![i][p] = None]
                  /\ hist' = Append(hist, Op("delete", i, p, ""))
DoExists(p) == /\ More /\ hist' = Append(hist, Op("exists", 0, p, IF Owner(p) = 0 THEN "no" ELSE "yes")) /\ UNCHANGED files
DoOpen(p)   == /\ More /\ hist' = Append(hist, Op("open", 0, p, IF Owner(p) = 0 THEN "ERR" ELSE files[Owner(p)][p])) /\ UNCHANGED files

Next == \E p \in Paths : DoExists(p) \/ DoOpen(p) \/ \E i \in 1..NLoaders : DoSet(i, p) \/ DoDelete(i, p)
Spec == Init /\ [][Next]_vars

\* sanity of the contract: an answer never comes from a member behind one that has the path
FirstWins == \A p \in Paths : Owner(p) # 0 => \A j \in 1..(Owner(p) - 1) : files[j][p] = None

\* only histories that end in a look-up and contain an edit are worth replaying
Interesting == /\ hist # <<>> /\ hist[Len(hist)].op \in {"exists", "open"}
               /\ \E k \in 1..Len(hist) : hist[k].op \in {"set", "delete"}
EmitVec == (Emit /\ Interesting) => PrintT(<<"VEC", ToJson([n |-> NLoaders, hist |-> hist])>>)
=============================================================================

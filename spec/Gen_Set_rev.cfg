SPECIFICATION Spec
CONSTANTS
  Exts <- cExtsRev
  Dev = FALSE
  MaxOps = 3
  InitWorlds <- cWorlds
  PutKey = "found"
  Emit = TRUE
INVARIANTS EmitVec
CHECK_DEADLOCK FALSE

------------------------------- MODULE Gen_C07 -------------------------------
(* C07: lexical scoping, stable variables, '.' restored.  Wrapper paths (no      *)
(* failures) with, at the hole, one of: reads, a rebind of an outer variable, a  *)
(* shadowing declaration, a rebind/shadow of a VarMap entry or a global, an      *)
(* assignment to an undeclared name; probes after every construct.  Plus loop    *)
(* variables of every ranger kind captured into an outer variable.               *)
EXTENDS JetProg
CONSTANTS Depth, Kinds

Focals == {"read", "set", "shadow", "setvm", "shadowvm", "shadowglobal", "setundef", "multi", "lookupmiss", "lookuphit"}

Reads(pfx) == << P(pfx \o "s", Var("s")), P(pfx \o "p", Var("p")), P(pfx \o "g", Var("g")),
                 P(pfx \o "i1", IsSetE("x1")), P(pfx \o "i2", IsSetE("x2")), P(pfx \o "i3", IsSetE("x3")),
                 P(pfx \o "ik", IsSetE("k")), P(pfx \o "iv", IsSetE("v")), P(pfx \o "ctx", Ctx) >>

Focal(f) ==
  CASE f = "read"         -> Reads("f")
    [] f = "set"          -> <<SetS("fs", "s", Lit("s1"))>> \o Reads("f")
    [] f = "shadow"       -> <<LetS("fl", "s", Lit("inner"))>> \o Reads("f")
    [] f = "setvm"        -> <<SetS("fs", "p", Lit("p1"))>> \o Reads("f")
    [] f = "shadowvm"     -> <<LetS("fl", "p", Lit("plocal"))>> \o Reads("f")
    [] f = "shadowglobal" -> <<LetS("fl", "g", Lit("glocal"))>> \o Reads("f")
    [] f = "setundef"     -> <<T("f0"), SetS("fs", "r", Lit("z")), T("f1")>>
    \* v, ok := m[k] declares v even when the key is absent: a later v = ... stays inside
    [] f = "lookupmiss"   -> <<Lookup("fl", "s", "x3", "miss")>> \o Reads("f") \o <<SetS("fs", "s", Lit("s1")), P("fs2", Var("s"))>>
    [] f = "lookuphit"    -> <<Lookup("fl", "s", "x3", "hit")>> \o Reads("f") \o <<SetS("fs", "s", Lit("s1")), P("fs2", Var("s"))>>
    [] f = "multi"        -> <<LetS("fl", "x3", Lit("m3")), SetS("fs", "s", Var("x3")), LetS("fl2", "_", Lit("d"))>> \o Reads("f")

\* s is also an Execute variable: the template's own s := shadows it, and = assigns to the nearest declaration
VM == [NoVarsMap EXCEPT !["p"] = "vmP", !["s"] = "vmS"]
GL == [NoVarsMap EXCEPT !["g"] = "glG", !["p"] = "glP"]

MkPath(par) ==
  LET path == par[2]  f == par[3]
      r    == Build(path, 1, Focal(f))
      main == <<T("pre"), LetS("ls", "s", Lit("s0"))>> \o Reads("a") \o r.main \o Reads("z") \o <<T("post")>>
      lib  == Tm("lib", "", <<>>, r.bl)
  IN [ts |-> <<Tm("main", "", <<"lib">>, main), lib>> \o r.ts, globals |-> GL,
      runs |-> <<RunR("main", VM, "D")>>, tag |-> "path|" \o PathTag(path) \o "|" \o f]

\* loop variable captured into an outer variable and read after the loop
RKinds == {"slice", "islice", "array", "ints", "map", "chan", "customidx", "custom"}
Elems(kind) == IF kind = "ints" THEN <<"0", "1", "2">> ELSE IF kind = "map" THEN <<"m1">> ELSE <<"e1", "e2", "e3">>
MkCapture(par) ==
  LET kind == par[2]  form == par[3]  asg == par[4]
      pre  == IF asg = "=" THEN <<LetS("lk", "k", Lit("k0")), LetS("lv", "v", Lit("v0"))>> ELSE <<>>
      capt == IF form = "none" THEN <<SetS("cs", "s", Ctx)>>
              ELSE IF form = "k" THEN <<SetS("cs", "s", Var("k")), SetS("cx", "x1", Ctx)>>
              ELSE <<SetS("cs", "s", Var("k")), SetS("cx", "x1", Var("v"))>>
      rng  == RangeS("rg", form, "k", "v", asg, ListE(kind, Elems(kind)), capt \o <<P("bs", Var("s"))>>)
      main == <<T("pre"), LetS("ls", "s", Lit("s0")), LetS("lx", "x1", Lit("x0"))>> \o pre \o <<rng>> \o
              <<P("zs", Var("s")), P("zx", Var("x1")), P("zctx", Ctx), P("zik", IsSetE("k")), T("post")>>
  IN [ts |-> <<Tm("main", "", <<>>, main)>>, globals |-> NoVarsMap,
      runs |-> <<RunR("main", NoVarsMap, "D")>>, tag |-> "capture|" \o kind \o "|" \o form \o "|" \o asg]

\* a value copied out of a loop stays what it was when a later range over another collection of the same type runs
\* (rangers are pooled and reused)
MkCapture2(par) ==
  LET kind == par[2]  form == par[3]
      capt == IF form = "none" THEN <<SetS("cs", "s", Ctx)>>
              ELSE IF form = "k" THEN <<SetS("cs", "s", Var("k")), SetS("cx", "x1", Ctx)>>
              ELSE <<SetS("cs", "s", Var("k")), SetS("cx", "x1", Var("v"))>>
      rng1 == RangeS("rg", form, "k", "v", ":=", ListE(kind, Elems(kind)), capt)
      els2 == IF kind = "ints" THEN <<"0", "1", "2", "3">> ELSE IF kind = "map" THEN <<"m2">> ELSE <<"f1", "f2", "f3">>
      rng2 == RangeS("rg2", form, "k", "v", ":=", ListE(kind, els2), <<T("b2")>>)
      main == <<T("pre"), LetS("ls", "s", Lit("s0")), LetS("lx", "x1", Lit("x0")), rng1, P("ms", Var("s")), P("mx", Var("x1")), rng2,
                P("zs", Var("s")), P("zx", Var("x1")), T("post")>>
  IN [ts |-> <<Tm("main", "", <<>>, main)>>, globals |-> NoVarsMap,
      runs |-> <<RunR("main", NoVarsMap, "D"), RunR("main", NoVarsMap, "D")>>, tag |-> "capture2|" \o kind \o "|" \o form]

\* names resolve in this execution only: the program (without a top-level :=, so that no deferred restore
\* surrounds the construct) runs with Execute variables and fails inside the construct, then runs again
\* without them
ResReads(pfx) == << P(pfx \o "p", Var("p")), P(pfx \o "g", Var("g")), P(pfx \o "is", IsSetE("s")),
                    P(pfx \o "i1", IsSetE("x1")), P(pfx \o "i2", IsSetE("x2")), P(pfx \o "i3", IsSetE("x3")),
                    P(pfx \o "ik", IsSetE("k")), P(pfx \o "iv", IsSetE("v")), P(pfx \o "iq", IsSetE("q1")), P(pfx \o "ctx", Ctx) >>
MkResidue(par) ==
  LET path == par[2]  f == par[3]
      foc  == CASE f = "fail" -> <<T("f0"), SetS("fs", "r", Lit("z")), T("f1")>>
                [] f = "panic" -> <<T("f0"), P("ff", Ex("err", "panic")), T("f1")>>          \* a panic Execute passes on to its caller
                [] f = "rterror" -> <<T("f0"), P("ff", Ex("err", "rterror")), T("f1")>>
                [] OTHER -> <<T("f0")>> \o ResReads("f")
      r    == Build(path, 1, foc)
      main == <<T("pre")>> \o ResReads("a") \o r.main \o ResReads("z") \o <<T("post")>>
      lib  == Tm("lib", "", <<>>, r.bl)
      vm1  == [NoVarsMap EXCEPT !["p"] = "vmP", !["q1"] = "vmq1", !["x3"] = "vmx3"]
  IN [ts |-> <<Tm("main", "", <<"lib">>, main), lib>> \o r.ts, globals |-> GL,
      runs |-> <<RunR("main", vm1, "D"), RunR("main", NoVarsMap, "D2"), RunR("main", vm1, "D")>>,
      tag |-> "residue|" \o PathTag(path) \o "|" \o f]

\* a loop variable copied into an outer variable is a value, not a view of the ranger's cursor: the copy made in
\* one iteration still holds that iteration's key / value in the next one and after the loop.  Maps of two
\* entries, in both iteration orders (Go picks one at random; the harness repeats until it sees this one)
MkMapAlias(par) ==
  LET ord  == par[2]  asg == par[3]
      els  == IF ord = "ab" THEN <<"m1", "m2">> ELSE <<"m2", "m1">>
      pre  == IF asg = "=" THEN <<LetS("lk", "k", Lit("k0")), LetS("lv", "v", Lit("v0"))>> ELSE <<>>
      body == <<SetS("c1", "x1", Var("s")), SetS("c2", "s", Var("k")), SetS("c3", "x2", Var("x3")), SetS("c4", "x3", Var("v")),
                P("b1", Var("x1")), P("b2", Var("s")), P("b3", Var("x2")), P("b4", Var("x3"))>>
      main == <<T("pre"), LetS("ls", "s", Lit("s0")), LetS("l1", "x1", Lit("x0")), LetS("l2", "x2", Lit("y0")), LetS("l3", "x3", Lit("w0"))>> \o pre \o
              <<RangeS("rg", "kv", "k", "v", asg, ListE("map", els), body)>> \o
              <<P("z1", Var("x1")), P("z2", Var("s")), P("z3", Var("x2")), P("z4", Var("x3")), T("post")>>
  IN [ts |-> <<Tm("main", "", <<>>, main)>>, globals |-> NoVarsMap,
      runs |-> <<RunR("main", NoVarsMap, "D")>>, tag |-> "map2|" \o ord \o "|" \o asg]

\* a name that is also a built-in function: the template's own variable, an Execute variable or a global of that
\* name wins wherever it is visible, and only there - at every evaluation, in every execution of the same template
MkBuiltin(par) ==
  LET variant == par[2]  path == par[3]
      call == BCall("lower")
      foc  == IF variant = "shadow" THEN <<P("f0", call), LetS("fl", "lower", Lit("FUNC:upper")), P("fb", call), P("fbp", BPipe("lower")), P("fbc", BColon("lower"))>>
              ELSE <<P("fb", call), P("fbp", BPipe("lower")), P("fbc", BColon("lower"))>>
      r    == Build(path, 1, foc)
      blk  == <<BlockS("bd", "bz", <<>>, NoE, <<P("bb", call)>>)>>
      main == <<T("pre"), P("ab", call)>> \o blk \o r.main \o
              <<P("zb", call), LetS("zl", "lower", Lit("FUNC:upper")), YieldS("zy", "bz", <<>>, NoE), P("zz", call), P("zzp", BPipe("lower")), P("zzc", BColon("lower")), T("post")>>
      lib  == Tm("lib", "", <<>>, r.bl)
      vmf  == [NoVarsMap EXCEPT !["lower"] = "FUNC:vmf"]
      gl   == IF variant = "global" THEN [NoVarsMap EXCEPT !["lower"] = "FUNC:glf"] ELSE NoVarsMap
  IN [ts |-> <<Tm("main", "", <<"lib">>, main), lib>> \o r.ts, globals |-> gl,
      runs |-> <<RunR("main", NoVarsMap, "D"), RunR("main", vmf, "D"), RunR("main", NoVarsMap, "D")>>,
      tag |-> "builtin|" \o variant \o "|" \o PathTag(path)]

MkC(par) == IF par[1] = "capture2" THEN MkCapture2(par) ELSE IF par[1] = "builtin" THEN MkBuiltin(par) ELSE IF par[1] = "mapalias" THEN MkMapAlias(par) ELSE IF par[1] = "path" THEN MkPath(par) ELSE IF par[1] = "residue" THEN MkResidue(par) ELSE MkCapture(par)
cParams == ({"path"} \X PathsUpTo(Kinds, Depth) \X Focals)
           \cup ({"residue"} \X PathsUpTo(Kinds, 1) \X {"fail", "ok", "panic", "rterror"})
           \cup ({"capture"} \X RKinds \X {"none", "k", "kv"} \X {":=", "="})
           \cup ({"builtin"} \X {"plain", "shadow", "global"} \X PathsUpTo(Kinds, 1))
           \cup ({"capture2"} \X (RKinds \ {"custom", "customidx", "chan"}) \X {"none", "k", "kv"})
           \cup ({"mapalias"} \X {"ab", "ba"} \X {":=", "="})
=============================================================================

------------------------------- MODULE Gen_C07 -------------------------------
(* C07: lexical scoping, stable variables, '.' restored.  Wrapper paths (no      *)
(* failures) with, at the hole, one of: reads, a rebind of an outer variable, a  *)
(* shadowing declaration, a rebind/shadow of a VarMap entry or a global, an      *)
(* assignment to an undeclared name; probes after every construct.  Plus loop    *)
(* variables of every ranger kind captured into an outer variable.               *)
EXTENDS JetProg
CONSTANTS Depth, Kinds

Focals == {"read", "set", "shadow", "setvm", "shadowvm", "shadowglobal", "setundef", "multi"}

Reads(pfx) == << P(pfx \o "s", Var("s")), P(pfx \o "p", Var("p")), P(pfx \o "g", Var("g")),
                 P(pfx \o "i1", IsSetE("x1")), P(pfx \o "i2", IsSetE("x2")), P(pfx \o "i3", IsSetE("x3")),
                 P(pfx \o "ik", IsSetE("k")), P(pfx \o "iv", IsSetE("v")), P(pfx \o "ctx", Ctx) >>

Focal(f) ==
  CASE f = "read"         -> Reads("f")
    [] f = "set"          -> <<SetS("fs", "s", Lit("s1"))>> \o Reads("f")
    [] f = "shadow"       -> <<LetS("fl", "s", Lit("inner"))>> \o Reads("f")
    [] f = "setvm"        -> <<SetS("fs", "p", Lit("p1"))>> \o Reads("f")
    [] f = "shadowvm"     -> <<LetS("fl", "p", Lit("plocal"))>> \o Reads("f")
    [] f = "shadowglobal" -> <<LetS("fl", "g", Lit("glocal"))>> \o Reads("f")
    [] f = "setundef"     -> <<T("f0"), SetS("fs", "r", Lit("z")), T("f1")>>
    [] f = "multi"        -> <<LetS("fl", "x3", Lit("m3")), SetS("fs", "s", Var("x3")), LetS("fl2", "_", Lit("d"))>> \o Reads("f")

VM == [NoVarsMap EXCEPT !["p"] = "vmP"]
GL == [NoVarsMap EXCEPT !["g"] = "glG", !["p"] = "glP"]

MkPath(par) ==
  LET path == par[2]  f == par[3]
      r    == Build(path, 1, Focal(f))
      main == <<T("pre"), LetS("ls", "s", Lit("s0"))>> \o Reads("a") \o r.main \o Reads("z") \o <<T("post")>>
      lib  == Tm("lib", "", <<>>, r.bl)
  IN [ts |-> <<Tm("main", "", <<"lib">>, main), lib>> \o r.ts, globals |-> GL,
      runs |-> <<RunR("main", VM, "D")>>, tag |-> "path|" \o PathTag(path) \o "|" \o f]

\* loop variable captured into an outer variable and read after the loop
RKinds == {"slice", "islice", "array", "ints", "map", "chan", "customidx", "custom"}
Elems(kind) == IF kind = "ints" THEN <<"0", "1", "2">> ELSE IF kind = "map" THEN <<"m1">> ELSE <<"e1", "e2", "e3">>
MkCapture(par) ==
  LET kind == par[2]  form == par[3]  asg == par[4]
      pre  == IF asg = "=" THEN <<LetS("lk", "k", Lit("k0")), LetS("lv", "v", Lit("v0"))>> ELSE <<>>
      capt == IF form = "none" THEN <<SetS("cs", "s", Ctx)>>
              ELSE IF form = "k" THEN <<SetS("cs", "s", Var("k")), SetS("cx", "x1", Ctx)>>
              ELSE <<SetS("cs", "s", Var("k")), SetS("cx", "x1", Var("v"))>>
      rng  == RangeS("rg", form, "k", "v", asg, ListE(kind, Elems(kind)), capt \o <<P("bs", Var("s"))>>)
      main == <<T("pre"), LetS("ls", "s", Lit("s0")), LetS("lx", "x1", Lit("x0"))>> \o pre \o <<rng>> \o
              <<P("zs", Var("s")), P("zx", Var("x1")), P("zctx", Ctx), P("zik", IsSetE("k")), T("post")>>
  IN [ts |-> <<Tm("main", "", <<>>, main)>>, globals |-> NoVarsMap,
      runs |-> <<RunR("main", NoVarsMap, "D")>>, tag |-> "capture|" \o kind \o "|" \o form \o "|" \o asg]

MkC(par) == IF par[1] = "path" THEN MkPath(par) ELSE MkCapture(par)
cParams == ({"path"} \X PathsUpTo(Kinds, Depth) \X Focals)
           \cup ({"capture"} \X RKinds \X {"none", "k", "kv"} \X {":=", "="})
=============================================================================

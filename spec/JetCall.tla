------------------------------- MODULE JetCall -------------------------------
(***************************************************************************)
(* Calls (C14) and the Arguments view (C18).  Every surface form of a call *)
(* -- plain f(a,b), prefix-colon f: a, b, piped x | f, piped with colon or *)
(* parenthesised arguments, piped with a slot f(a, _) at any index, and    *)
(* chains -- normalises to <<callee, argument vector>>; a pipeline calls   *)
(* each stage exactly once, left to right.  The count rule (fixed /        *)
(* variadic), the two-slot rule, the SafeWriter-must-be-last rule and the  *)
(* argument conversion table are part of the contract.                     *)
(***************************************************************************)
EXTENDS Integers, Sequences, FiniteSets, TLC, Json

CONSTANTS MaxArgs, Emit

\* jp2: a jet.Func that takes exactly two arguments, read with Arguments.ParseInto (which reports a surplus argument)
Callees == {"rec1", "rec2", "rec3", "recv1", "recv0", "vm2", "pm2", "jf", "jp2", "sw", "nilv"}
\* nilv is not a call: a first stage that evaluates to no value (a nil global).  A reflected Go function refuses an
\* invalid piped argument; a jet.Func receives it as an argument like any other (Arguments.IsSet says it is not set)
Inv == "<invalid Value>"
IsNoValue(c) == c = "nilv"
\* sw is a user-supplied SafeWriter: it writes "{v}" for the piped value and each of its arguments, yields no value,
\* is not a recorded call, and may only be the last stage
IsWriter(c) == c = "sw"
Arity(c)    == CASE c = "rec1" -> 1 [] c = "rec2" -> 2 [] c = "rec3" -> 3 [] c = "recv1" -> 1 [] c = "recv0" -> 0
                 [] c = "vm2" -> 2 [] c = "pm2" -> 2 [] c = "jp2" -> 2 [] c = "jf" -> 0 [] c = "sw" -> 0 [] c = "nilv" -> 0
Variadic(c) == c \in {"recv1", "recv0", "jf", "sw"}          \* a jet.Func accepts any number of arguments
Shapes == {"plain", "colon", "pipe", "pipecolon", "pipeparen", "slot", "slot2"}

\* explicit arguments are the atoms a1, a2, ...; the piped value is x (or the previous stage's result).
\* One explicit argument (index `nest`, 0 = none) may itself be a call, rec1("ak"): it is evaluated - called and
\* logged - before the call it is an argument of, and its value takes the argument's place
Explicit(n, nest) == [i \in 1..n |-> IF i = nest THEN "rec1(a" \o ToString(i) \o ")" ELSE "a" \o ToString(i)]

\* the argument vector a stage receives
ArgVector(shape, n, slot, piped, nest) ==
  CASE shape \in {"plain", "colon"} -> Explicit(n, nest)
    [] shape \in {"pipe", "pipecolon", "pipeparen"} -> <<piped>> \o Explicit(n, nest)
    [] shape \in {"slot", "slot2"} -> [i \in 1..n |-> IF i = slot THEN piped ELSE Explicit(n, nest)[i]]

CountOK(c, k) == IF Variadic(c) THEN k >= Arity(c) ELSE k = Arity(c)

\* what the recording callees return: "name(arg,arg)"
RECURSIVE JoinArgs(_)
JoinArgs(s) == IF s = <<>> THEN "" ELSE IF Len(s) = 1 THEN s[1] ELSE s[1] \o "," \o JoinArgs(Tail(s))
ResultOf(c, args) == c \o "(" \o JoinArgs(args) \o ")"

VARIABLES stages, phase
vars == <<stages, phase>>
Stage(c, shape, n, slot, nest) == [c |-> c, shape |-> shape, n |-> n, slot |-> slot, nest |-> nest]

ValidStage(first, c, shape, n, slot, nest) ==
  /\ n \in 0..MaxArgs
  \* a jet.Func is handed its argument EXPRESSIONS (Arguments.Get evaluates on demand, every time it is asked): how
  \* often a nested call runs is up to the callee, so the contract only speaks about nested calls under the other kinds
  /\ (c \in {"jf", "jp2"} => nest = 0)
  /\ nest \in 0..n /\ (nest # 0 => nest # slot) /\ (shape = "slot2" /\ nest # 0 => nest # (slot % n) + 1)
  /\ (first => shape \in {"plain", "colon"})            \* nothing is piped into the first stage
  /\ (~first => shape \in {"pipe", "pipecolon", "pipeparen", "slot", "slot2"})
  /\ (shape \in {"colon", "pipecolon"} => n >= 1)
  /\ (shape = "pipe" => n = 0)
  /\ (shape \in {"slot", "slot2"} => (n >= 1 /\ slot \in 1..n)) /\ (shape \notin {"slot", "slot2"} => slot = 0)
  /\ (shape = "slot2" => n >= 2)
  /\ (IsWriter(c) => (shape \notin {"slot", "slot2"} /\ (first => n >= 1)))
  /\ (IsNoValue(c) => (first /\ shape = "plain" /\ n = 0))

Init == stages = <<>> /\ phase = "grow"
AddStage(c, shape, n, slot, nest) ==
  /\ phase = "grow" /\ Len(stages) < 3
  /\ ValidStage(stages = <<>>, c, shape, n, slot, nest)
  /\ ~(stages # <<>> /\ IsNoValue(stages[Len(stages)].c) /\ IsWriter(c))
  /\ stages' = Append(stages, Stage(c, shape, n, slot, nest))
  /\ UNCHANGED phase
Finish == phase = "grow" /\ stages # <<>> /\ phase' = "done" /\ UNCHANGED stages
Next == Finish \/ \E c \in Callees, sh \in Shapes, n \in 0..MaxArgs, sl \in 0..MaxArgs, ne \in 0..MaxArgs : AddStage(c, sh, n, sl, ne)
Spec == Init /\ [][Next]_vars

\* evaluation of the pipeline: call log and outcome
RECURSIVE Braced(_)
Braced(vs) == IF vs = <<>> THEN "" ELSE "{" \o Head(vs) \o "}" \o Braced(Tail(vs))
\* Run(stages, piped value, call log, bytes written by writer stages, previous stage was a writer)
RECURSIVE Run(_, _, _, _, _)
Run(ss, piped, log, wr, wasw) ==
  IF ss = <<>> THEN [ok |-> TRUE, class |-> "", log |-> log, value |-> wr \o (IF wasw \/ piped = Inv THEN "" ELSE piped)]
  ELSE LET s == Head(ss)
           av == ArgVector(s.shape, s.n, s.slot, piped, s.nest)
           \* the nested argument call happens while the arguments are collected, i.e. before the stage's own call
           lg == IF s.nest = 0 THEN log ELSE Append(log, [c |-> "rec1", args |-> <<"a" \o ToString(s.nest)>>])
       IN IF s.shape = "slot2" THEN [ok |-> FALSE, class |-> "twoslots", log |-> <<>>, value |-> ""]   \* rejected when parsing
          ELSE IF wasw THEN [ok |-> FALSE, class |-> "writerlast", log |-> log, value |-> ""]          \* a SafeWriter stage may only come last
          ELSE IF IsWriter(s.c) THEN Run(Tail(ss), "", lg, wr \o Braced(av), TRUE)
          ELSE IF IsNoValue(s.c) THEN Run(Tail(ss), Inv, log, wr, FALSE)
          ELSE IF s.c # "jf" /\ (\E i \in 1..Len(av) : av[i] = Inv) THEN [ok |-> FALSE, class |-> "arg-invalid", log |-> log, value |-> ""]
          ELSE IF ~CountOK(s.c, Len(av)) THEN [ok |-> FALSE, class |-> "argcount", log |-> log, value |-> ""]
          ELSE Run(Tail(ss), ResultOf(s.c, av), Append(lg, [c |-> s.c, args |-> av]), wr, FALSE)

\* two pipe slots in one call are rejected when the template is parsed, wherever the call sits
Outcome == IF \E i \in 1..Len(stages) : stages[i].shape = "slot2"
           THEN [ok |-> FALSE, class |-> "twoslots", log |-> <<>>, value |-> ""]
           ELSE Run(stages, "", <<>>, "", FALSE)
Done == phase = "done"

\* every stage is called exactly once, in order, when the pipeline succeeds
Recorded == SelectSeq(stages, LAMBDA st : ~IsWriter(st.c) /\ ~IsNoValue(st.c))
Nested   == SelectSeq(stages, LAMBDA st : st.nest # 0)
OwnCalls == SelectSeq(Outcome.log, LAMBDA l : ~(l.c = "rec1" /\ Len(l.args) = 1 /\ l.args[1] \in {"a1", "a2", "a3", "a4"}))
EachStageOnce == Done /\ Outcome.ok => /\ Len(Outcome.log) = Len(Recorded) + Len(Nested)
                                        /\ (Nested = <<>> => \A i \in 1..Len(Recorded) : Outcome.log[i].c = Recorded[i].c)
\* a writer anywhere but in the last stage is an error
WriterOnlyLast == Done => ((\E i \in 1..(Len(stages) - 1) : IsWriter(stages[i].c) /\ \A j \in 1..Len(stages) : stages[j].shape # "slot2")
                           => (~Outcome.ok /\ Outcome.class \in {"writerlast", "argcount"}))
\* all spellings of one call have one normal form
FormsAgree == \A c \in Callees, n \in 1..MaxArgs :
                /\ \A ne \in 0..n :
                     /\ ArgVector("plain", n, 0, "x", ne) = ArgVector("colon", n, 0, "x", ne)
                     /\ ArgVector("pipecolon", n, 0, "x", ne) = ArgVector("pipeparen", n, 0, "x", ne)
                     /\ ArgVector("pipeparen", n, 0, "x", ne) = <<"x">> \o ArgVector("plain", n, 0, "x", ne)
                     /\ \A k \in 1..n : ArgVector("slot", n, k, "x", ne)[k] = "x"

---------------------------------------------------------------------------
(* Argument conversion (contract): what a Go parameter of each kind receives. *)
ConvTable == <<
  [param |-> "int",     arg |-> "iv7",   expect |-> "7"],
  [param |-> "int",     arg |-> "2.5",   expect |-> "2"],        \* numeric literals are floats; converted like Go's int(2.5)
  [param |-> "int",     arg |-> "\"s\"", expect |-> "ERR"],
  [param |-> "int",     arg |-> "nil",   expect |-> "ERR"],
  [param |-> "float64", arg |-> "iv7",   expect |-> "7"],
  [param |-> "float64", arg |-> "2.5",   expect |-> "2.5"],
  [param |-> "float64", arg |-> "\"s\"", expect |-> "ERR"],
  [param |-> "string",  arg |-> "\"s\"", expect |-> "s"],
  [param |-> "string",  arg |-> "bytes", expect |-> "bb"],
  [param |-> "string",  arg |-> "nlabel", expect |-> "lbl"],      \* a named string type: same kind, another type
  [param |-> "int64",   arg |-> "ndur",  expect |-> "5"],         \* a named int64 type (like time.Duration)
  [param |-> "varstr",  arg |-> "nlabel, \"s\"", expect |-> "lbl,s"],
  [param |-> "string",  arg |-> "nil",   expect |-> "ERR"],
  [param |-> "bytes",   arg |-> "\"s\"", expect |-> "s"],
  [param |-> "iface",   arg |-> "iv7",   expect |-> "7"],
  [param |-> "iface",   arg |-> "\"s\"", expect |-> "s"],
  [param |-> "varint",  arg |-> "2.5, iv7, 3.9", expect |-> "2,7,3"],
  [param |-> "varint",  arg |-> "",      expect |-> ""],
  [param |-> "varint",  arg |-> "1, \"s\"", expect |-> "ERR"] >>

(* Documented built-ins and the Go function each is documented to expose. *)
Builtins == <<
  [name |-> "lower",     go |-> "strings.ToLower",   args |-> <<"\"AbC dE\"">>],
  [name |-> "upper",     go |-> "strings.ToUpper",   args |-> <<"\"AbC dE\"">>],
  [name |-> "hasPrefix", go |-> "strings.HasPrefix", args |-> <<"\"abcd\"", "\"ab\"">>],
  [name |-> "hasPrefix", go |-> "strings.HasPrefix", args |-> <<"\"abcd\"", "\"cd\"">>],
  [name |-> "hasSuffix", go |-> "strings.HasSuffix", args |-> <<"\"abcd\"", "\"cd\"">>],
  [name |-> "hasSuffix", go |-> "strings.HasSuffix", args |-> <<"\"abcd\"", "\"ab\"">>],
  [name |-> "repeat",    go |-> "strings.Repeat",    args |-> <<"\"ab\"", "3">>],
  [name |-> "repeat",    go |-> "strings.Repeat",    args |-> <<"\"ab\"", "0">>],
  [name |-> "replace",   go |-> "strings.Replace",   args |-> <<"\"aXbXc\"", "\"X\"", "\"-\"", "1">>],
  [name |-> "replace",   go |-> "strings.Replace",   args |-> <<"\"aXbXc\"", "\"X\"", "\"-\"", "-1">>],
  [name |-> "replace",   go |-> "strings.Replace",   args |-> <<"\"aXbXcXd\"", "\"X\"", "\"-\"", "0">>],     \* a limit of 0 replaces nothing
  [name |-> "replace",   go |-> "strings.Replace",   args |-> <<"\"aXbXcXd\"", "\"X\"", "\"-\"", "2">>],
  [name |-> "replace",   go |-> "strings.Replace",   args |-> <<"\"ab\"", "\"\"", "\"-\"", "-1">>],          \* an empty pattern matches between runes
  [name |-> "split",     go |-> "strings.Split",     args |-> <<"\"a,b,,c\"", "\",\"">>],
  [name |-> "split",     go |-> "strings.Split",     args |-> <<"\"héj\"", "\"\"">>],                     \* an empty separator splits into characters
  [name |-> "split",     go |-> "strings.Split",     args |-> <<"\"\"", "\",\"">>],
  [name |-> "repeat",    go |-> "strings.Repeat",    args |-> <<"\"\"", "5">>],
  [name |-> "trimSpace", go |-> "strings.TrimSpace", args |-> <<"\"\"">>],
  [name |-> "hasPrefix", go |-> "strings.HasPrefix", args |-> <<"\"ab\"", "\"\"">>],
  [name |-> "hasSuffix", go |-> "strings.HasSuffix", args |-> <<"\"\"", "\"a\"">>],
  [name |-> "trimSpace", go |-> "strings.TrimSpace", args |-> <<"\"  a b \\t\"">>],
  [name |-> "html",      go |-> "html.EscapeString", args |-> <<"\"<a href='x'>&\\\"</a>\"">>],
  [name |-> "url",       go |-> "url.QueryEscape",   args |-> <<"\"a b&c=d/é\"">>],
  [name |-> "json",      go |-> "json.Marshal",      args |-> <<"jsonv">>],
  [name |-> "writeJson", go |-> "json.Encoder",      args |-> <<"jsonv">>],
  [name |-> "len",       go |-> "len",               args |-> <<"\"héllo\"">>],
  [name |-> "len",       go |-> "len",               args |-> <<"lensl">>],
  [name |-> "len",       go |-> "len",               args |-> <<"lenmap">>],
  [name |-> "len",       go |-> "len",               args |-> <<"lennilsl">>],      \* nil collections have length 0, also
  [name |-> "len",       go |-> "len",               args |-> <<"lenpnilsl">>],     \* behind a pointer
  [name |-> "len",       go |-> "len",               args |-> <<"lenpnilmap">>],
  [name |-> "len",       go |-> "len",               args |-> <<"lenparr">>],       \* a pointer to an array
  [name |-> "ints",      go |-> "range",             args |-> <<"2", "5">>],
  [name |-> "map",       go |-> "mapliteral",        args |-> <<"\"k1\"", "\"v1\"", "\"k2\"", "iv7">>],
  [name |-> "map",       go |-> "mapliteral-intkey", args |-> <<"iv7", "\"v\"">>],
  [name |-> "slice",     go |-> "sliceliteral",      args |-> <<"\"a\"", "iv7", "2.5">>],
  [name |-> "array",     go |-> "sliceliteral",      args |-> <<"\"a\"", "iv7">>] >>

\* three-stage pipelines only over the short forms (keeps the enumeration in the thousands)
Bound == Len(stages) <= 2 \/ \A i \in 1..Len(stages) : stages[i].nest = 0 /\ stages[i].n <= 1 /\ stages[i].c \in {"rec1", "rec2", "jf", "vm2", "sw", "nilv"}

EmitVec == /\ (Emit /\ Done) => PrintT(<<"VEC", ToJson([stages |-> stages, outcome |-> Outcome])>>)
           /\ (Emit /\ stages = <<>> /\ phase = "grow") => PrintT(<<"VEC", ToJson([conv |-> ConvTable, builtins |-> Builtins])>>)
=============================================================================

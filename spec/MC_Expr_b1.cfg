SPECIFICATION Spec
CONSTANTS
  Shapes = {"U", "B1", "NEGL", "NEGR", "NOTB", "NOTL", "T1"}
  LeafPool <- cPoolU
  BinOps <- cBinOps
  Emit = TRUE
INVARIANTS BoolOps IntClosed EmitVec
CHECK_DEADLOCK FALSE

SPECIFICATION Spec
CONSTANTS
  Exts <- cExtsNoEmpty
  Dev = FALSE
  MaxOps = 4
  InitWorlds <- cWorlds
  PutKey = "request"
  Emit = FALSE
VIEW view
INVARIANTS FailureConsultsLoader DevAlwaysReloads ExtensionOrder
PROPERTIES HitIdentity FailuresNeverCached ParseNeverPuts
CHECK_DEADLOCK FALSE

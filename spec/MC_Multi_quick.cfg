SPECIFICATION Spec
CONSTANTS
  NLoaders = 2
  MaxOps = 4
  Emit = TRUE
INVARIANTS FirstWins EmitVec
CHECK_DEADLOCK FALSE

SPECIFICATION Spec
CONSTANTS
  NLoaders = 3
  MaxOps = 4
  Emit = TRUE
INVARIANTS FirstWins EmitVec
CHECK_DEADLOCK FALSE

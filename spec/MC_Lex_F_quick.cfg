SPECIFICATION Spec
CONSTANTS
  LD <- F_LD
  RD <- F_RD
  LC <- F_LC
  RC <- F_RC
  Alphabet <- F_Alpha
  Headers <- NoHeader
  MaxLen = 5
  Emit = TRUE
INVARIANTS NoInvention EmitVec
CHECK_DEADLOCK FALSE

SPECIFICATION Spec
CONSTANTS
  Roots = {"top", "outer", "p_outer", "pp_outer", "nilp", "outer2", "p_outer2", "m", "mn", "mi", "mp", "tags", "arr", "outers", "s:hi", "nil", "nilmap", "i_inner"}
  MaxSteps = 3
  Emit = TRUE
  IssetMode = FALSE
INVARIANTS DotBracketAgree Total EmitVec EmitCatalogue
CHECK_DEADLOCK FALSE

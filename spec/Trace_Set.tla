------------------------------ MODULE Trace_Set ------------------------------
(* code -> spec for C16: histories recorded from a real Set (fault-injecting   *)
(* loader, recording cache) are replayed through the actions of JetSet; every  *)
(* event must be the outcome JetSet's action produces, and the contract        *)
(* invariants are evaluated in every state the implementation went through.    *)
EXTENDS JetSet

Trace == ndJsonDeserialize("trace_set.ndjson")

VARIABLES l,        \* next event
          idpairs   \* <<spec tid, observed object id>> pairs seen in this trace
tvars == <<vars, l, idpairs>>

Ev == Trace[l]
IsEvent(op) == l <= Len(Trace) /\ Ev.op = op /\ l' = l + 1

TraceInit == /\ l = 1 /\ idpairs = {}
             /\ files = [p \in FilePaths |-> NoF] /\ cache = EmptyCache /\ tidc = 0 /\ edits = 1
             /\ lastOK = [n \in Names |-> NoT] /\ last = NoLast /\ nops = 0 /\ hist = <<>>

\* a new trace starts: fresh Set, given loader contents
Reset == /\ IsEvent("init")
         /\ files' = [p \in FilePaths |-> [k |-> Ev.world[p].k, v |-> Ev.world[p].v, x |-> Ev.world[p].x]]
         /\ cache' = EmptyCache /\ tidc' = 0 /\ edits' = 1
         /\ lastOK' = [n \in Names |-> NoT] /\ last' = NoLast /\ nops' = 0 /\ hist' = <<>>
         /\ idpairs' = {}

MatchResult(e) ==
  /\ last'.ok = e.ok
  /\ last'.calls = e.calls
  /\ e.ok => /\ last'.t.path = e.path \/ e.op = "ExecInclude"
             /\ last'.t.ver = e.ver /\ last'.t.lpath = e.lpath /\ last'.t.lver = e.lver

MatchIdent(e) ==
  IF e.ok /\ e.op # "ExecInclude"
  THEN /\ \A pr \in idpairs : (pr[1] = last'.t.tid) <=> (pr[2] = e.ident)
       /\ idpairs' = idpairs \cup {<<last'.t.tid, e.ident>>}
  ELSE idpairs' = idpairs

TrGet   == IsEvent("GetTemplate") /\ GetTemplate(Ev.n) /\ MatchResult(Ev) /\ MatchIdent(Ev)
TrInc   == IsEvent("ExecInclude") /\ ExecInclude(Ev.n) /\ MatchResult(Ev) /\ MatchIdent(Ev)
TrParse == (IsEvent("ParsePlain") \/ IsEvent("ParseExt"))
           /\ Parse(IF Ev.op = "ParsePlain" THEN "none" ELSE Ev.n) /\ MatchResult(Ev) /\ MatchIdent(Ev)
TrSet   == IsEvent("LoaderSet") /\ LoaderSet(Ev.n, Ev.f.x) /\ files'[Ev.n].v = Ev.f.v /\ UNCHANGED idpairs
TrDel   == IsEvent("LoaderDelete") /\ LoaderDelete(Ev.n) /\ UNCHANGED idpairs
TrFault == IsEvent("InjectFault") /\ InjectFault(Ev.n, Ev.f.k) /\ UNCHANGED idpairs
TrClear == IsEvent("ClearFault") /\ ClearFault(Ev.n) /\ UNCHANGED idpairs

TraceNext == Reset \/ TrGet \/ TrInc \/ TrParse \/ TrSet \/ TrDel \/ TrFault \/ TrClear
TraceSpec == TraceInit /\ [][TraceNext]_tvars

TraceAccepted ==
  LET n == TLCGet("stats").diameter - 1 IN
  IF n = Len(Trace) THEN TRUE ELSE PrintT(<<"TRACE-REJECTED-AFTER", n>>) /\ FALSE
=============================================================================

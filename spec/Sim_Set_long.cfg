SPECIFICATION Spec
CONSTANTS
  Exts <- cExtsLong
  Dev = FALSE
  MaxOps = 8
  InitWorlds <- cWorlds
  PutKey = "found"
  Emit = TRUE
INVARIANTS EmitVec
CHECK_DEADLOCK FALSE

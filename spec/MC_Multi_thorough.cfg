SPECIFICATION Spec
CONSTANTS
  NLoaders = 4
  MaxOps = 5
  Emit = TRUE
INVARIANTS FirstWins EmitVec
CHECK_DEADLOCK FALSE

SPECIFICATION Spec
CONSTANTS
  MaxArgs = 3
  Emit = TRUE
INVARIANTS EachStageOnce FormsAgree WriterOnlyLast EmitVec
CONSTRAINT Bound
CHECK_DEADLOCK FALSE

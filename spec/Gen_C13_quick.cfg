SPECIFICATION Spec
CONSTANTS
  Params <- cParams
  MkCase <- MkC
  Names <- cNames
  Depth = 1
  Kinds <- WrapKinds
  FixTry = TRUE
  FixPool = TRUE
  RetKeep = TRUE
  ExecFull = TRUE
  FixIsSet = TRUE
  AnyFail = FALSE
INVARIANTS TypeOK StartsClean EmitVec
PROPERTIES ConstructRestores TryRestoresState IsSetRestoresState AppendOnly
CHECK_DEADLOCK FALSE

SPECIFICATION Spec
CONSTANTS
  Params <- cParams
  MkCase <- MkC
  Names <- cNames
  Depth = 1
  Kinds <- WrapKinds
  FixTry = TRUE
  FixPool = TRUE
  RetKeep = TRUE
  ExecFull = TRUE
  AnyFail = FALSE
INVARIANTS TypeOK StartsClean EmitVec
PROPERTIES ConstructRestores TryRestoresState AppendOnly
CHECK_DEADLOCK FALSE

------------------------------- MODULE JetSet -------------------------------
(***************************************************************************)
(* The Set as a cache-coherence protocol between Cache, Loader and the     *)
(* development-mode flag (property C16), sequential histories.             *)
(*                                                                         *)
(* MECHANISM: Lookup mirrors set.go getTemplate / getTemplateFromCache /   *)
(* getTemplateFromLoader / loadFromFile / parse (extends resolved while    *)
(* parsing) probe by probe; every Cache and Loader call is recorded.       *)
(* CONTRACT: HitIdentity, FailuresNeverCached, FailureConsultsLoader,      *)
(* DevAlwaysReloads, ParseNeverPuts, ExtensionOrder are written from the   *)
(* property text over (result, call list, cache before/after) only.        *)
(*                                                                         *)
(* World: two base names x, y; x-files may `extends "y"`; every file has a *)
(* version that is bumped by each loader edit and is visible in what the   *)
(* template renders, so stale and fresh templates are distinguishable.     *)
(***************************************************************************)
EXTENDS Naturals, Sequences, FiniteSets, TLC, Json

CONSTANTS Exts,          \* extension list, in order
          Dev,           \* development mode
          MaxOps,        \* history length bound
          InitWorlds,    \* set of initial loader contents
          PutKey,        \* "request": Cache.Put under the requested path (as implemented)
                         \* "found"  : under the path the template was found at
          Emit           \* print vectors

Names     == {"x", "y", "x.jet"}           \* names a caller may ask for
FilePaths == {"/x", "/x.jet", "/y", "/y.jet"}
XPaths    == {"/x", "/x.jet"}
Faults    == {"openfail", "readfail", "bad"}

NoT   == [tid |-> 0, path |-> "", ver |-> 0, lpath |-> "", lver |-> 0]
NoF   == [k |-> "absent", v |-> 0, x |-> FALSE]

Cand(n)   == [i \in 1..Len(Exts) |-> "/" \o n \o Exts[i]]
SeqRange(s) == {s[i] : i \in 1..Len(s)}
CacheKeys == UNION {SeqRange(Cand(n)) : n \in Names} \cup {"/" \o n : n \in Names}

VARIABLES files,    \* loader contents: FilePaths -> [k, v, x]
          cache,    \* CacheKeys -> template | NoT
          tidc,     \* template identities handed out so far
          edits,    \* loader edits so far (next version)
          lastOK,   \* Names -> template returned by the last successful GetTemplate(n)
          last,     \* result of the last operation
          nops,
          hist      \* full history (output only; hidden by VIEW)
vars == <<files, cache, tidc, edits, lastOK, last, nops, hist>>
view == <<files, cache, tidc, edits, lastOK, last, nops>>

FileAt(f, p) == IF p \in FilePaths THEN f[p] ELSE NoF
Call(op, p)  == [op |-> op, path |-> p]
MinOf(S)     == CHOOSE m \in S : \A o \in S : m <= o

\* A template value: identity, the path and version it was parsed from and, when it extends a
\* layout, the layout's path and version *as captured at parse time*.  Rendering shows all four,
\* so stale and fresh templates are distinguishable by their output.
\* root layout of a template's extends chain (what Execute renders)
RootPath(t) == IF t.lpath # "" THEN t.lpath ELSE t.path
RootVer(t)  == IF t.lpath # "" THEN t.lver ELSE t.ver

Fail(ch, calls, t) == [ok |-> FALSE, t |-> NoT, cache |-> ch, calls |-> calls, tid |-> t]

---------------------------------------------------------------------------
(* The mechanism. `fuel` only makes the recursion visibly well-founded:     *)
(* x-files extend y, y-files extend nothing.                                *)

RECURSIVE Lookup(_, _, _, _, _, _)
Lookup(f, n, caching, ch, tid, fuel) ==
  LET c    == Cand(n)
      hits == IF Dev THEN {} ELSE {i \in 1..Len(c) : ch[c[i]] # NoT}
      h    == IF hits = {} THEN 0 ELSE MinOf(hits)
      gets == IF Dev THEN <<>> ELSE [i \in 1..(IF h = 0 THEN Len(c) ELSE h) |-> Call("Get", c[i])]
  IN
  IF h # 0 THEN [ok |-> TRUE, t |-> ch[c[h]], cache |-> ch, calls |-> gets, tid |-> tid]
  ELSE
  LET exi == {i \in 1..Len(c) : FileAt(f, c[i]).k # "absent"}
      e   == IF exi = {} THEN 0 ELSE MinOf(exi)
      exs == [i \in 1..(IF e = 0 THEN Len(c) ELSE e) |-> Call("Exists", c[i])]
  IN
  IF e = 0 THEN Fail(ch, gets \o exs, tid)
  ELSE
  LET p    == c[e]
      fl   == FileAt(f, p)
      pre  == gets \o exs \o <<Call("Open", p)>>
      key  == IF PutKey = "found" THEN p ELSE "/" \o n
  IN
  IF fl.k \in Faults THEN Fail(ch, pre, tid)
  ELSE IF fl.x /\ fuel > 0 THEN
       LET sub == Lookup(f, "y", caching, ch, tid, fuel - 1) IN
       IF ~sub.ok THEN Fail(sub.cache, pre \o sub.calls, sub.tid)
       ELSE LET t   == [tid |-> sub.tid + 1, path |-> p, ver |-> fl.v, lpath |-> RootPath(sub.t), lver |-> RootVer(sub.t)]
                put == caching /\ ~Dev
            IN [ok |-> TRUE, t |-> t,
                cache |-> IF put THEN [sub.cache EXCEPT ![key] = t] ELSE sub.cache,
                calls |-> pre \o sub.calls \o (IF put THEN <<Call("Put", key)>> ELSE <<>>),
                tid |-> sub.tid + 1]
  ELSE LET t   == [tid |-> tid + 1, path |-> p, ver |-> fl.v, lpath |-> "", lver |-> 0]
           put == caching /\ ~Dev
       IN [ok |-> TRUE, t |-> t,
           cache |-> IF put THEN [ch EXCEPT ![key] = t] ELSE ch,
           calls |-> pre \o (IF put THEN <<Call("Put", key)>> ELSE <<>>),
           tid |-> tid + 1]

---------------------------------------------------------------------------
EmptyCache == [k \in CacheKeys |-> NoT]
NoLast == [op |-> "none", n |-> "", ok |-> TRUE, t |-> NoT, calls |-> <<>>]

Init == /\ files \in InitWorlds
        /\ cache = EmptyCache
        /\ tidc = 0 /\ edits = 1
        /\ lastOK = [n \in Names |-> NoT]
        /\ last = NoLast /\ nops = 0
        /\ hist = <<[op |-> "init", n |-> "", ok |-> TRUE, t |-> NoT, calls |-> <<>>, world |-> files]>>

Record(op, n, r) ==
  /\ last' = [op |-> op, n |-> n, ok |-> r.ok, t |-> r.t, calls |-> r.calls]
  /\ hist' = Append(hist, [op |-> op, n |-> n, ok |-> r.ok, t |-> r.t, calls |-> r.calls])
  /\ nops' = nops + 1

GetTemplate(n) ==
  /\ nops < MaxOps
  /\ LET r == Lookup(files, n, TRUE, cache, tidc, 1) IN
       /\ cache' = r.cache /\ tidc' = r.tid
       /\ lastOK' = IF r.ok THEN [lastOK EXCEPT ![n] = r.t] ELSE lastOK
       /\ Record("GetTemplate", n, r)
  /\ UNCHANGED <<files, edits>>

\* Execute of a (never cached) template whose body is {{include "n"}}: a run-time lookup
ExecInclude(n) ==
  /\ nops < MaxOps
  /\ LET r == Lookup(files, n, TRUE, cache, tidc, 1) IN
       /\ cache' = r.cache /\ tidc' = r.tid
       /\ Record("ExecInclude", n, r)
  /\ UNCHANGED <<files, edits, lastOK>>

\* Set.Parse("p", src): src is plain text ("none") or {{extends "n"}}... with n = "y" or "x"
\* (x may itself extend y: templates pulled in two levels deep)
Parse(n) ==
  /\ nops < MaxOps
  /\ IF n # "none"
     THEN LET sub == Lookup(files, n, FALSE, cache, tidc, 1) IN
          /\ cache' = sub.cache /\ tidc' = IF sub.ok THEN sub.tid + 1 ELSE sub.tid
          /\ Record("ParseExt", n,
                    [ok |-> sub.ok,
                     t |-> IF sub.ok THEN [tid |-> sub.tid + 1, path |-> "/p", ver |-> 0,
                                           lpath |-> RootPath(sub.t), lver |-> RootVer(sub.t)] ELSE NoT,
                     calls |-> sub.calls])
     ELSE /\ cache' = cache /\ tidc' = tidc + 1
          /\ Record("ParsePlain", "p", [ok |-> TRUE, t |-> [tid |-> tidc + 1, path |-> "/p", ver |-> 0, lpath |-> "", lver |-> 0], calls |-> <<>>])
  /\ UNCHANGED <<files, edits, lastOK>>

Edit(op, p, f) ==
  /\ nops < MaxOps
  /\ files' = [files EXCEPT ![p] = f]
  /\ last' = [op |-> op, n |-> p, ok |-> TRUE, t |-> NoT, calls |-> <<>>]
  /\ hist' = Append(hist, [op |-> op, n |-> p, ok |-> TRUE, t |-> NoT, calls |-> <<>>, f |-> f])
  /\ nops' = nops + 1
  /\ UNCHANGED <<cache, tidc, lastOK>>

LoaderSet(p, x) == /\ x => p \in XPaths
                   /\ Edit("LoaderSet", p, [k |-> "ok", v |-> edits + 1, x |-> x])
                   /\ edits' = edits + 1
LoaderDelete(p) == /\ files[p].k # "absent"
                   /\ Edit("LoaderDelete", p, NoF) /\ UNCHANGED edits
InjectFault(p, kind) == /\ files[p].k = "ok"
                        /\ Edit("InjectFault", p, [files[p] EXCEPT !.k = kind, !.x = FALSE]) /\ UNCHANGED edits
ClearFault(p) == /\ files[p].k \in Faults
                 /\ Edit("ClearFault", p, [files[p] EXCEPT !.k = "ok"]) /\ UNCHANGED edits

Next == \/ \E n \in Names : GetTemplate(n) \/ ExecInclude(n)
        \/ \E n \in {"none", "y", "x"} : Parse(n)
        \/ \E p \in FilePaths : \/ \E x \in BOOLEAN : LoaderSet(p, x)
                                \/ LoaderDelete(p) \/ ClearFault(p)
                                \/ \E k \in Faults : InjectFault(p, k)

Spec == Init /\ [][Next]_vars

---------------------------------------------------------------------------
(* The contract (C16), over results, call lists and the cache only.        *)

IsLookup(l) == l.op \in {"GetTemplate", "ExecInclude"}
LoaderCalls(calls) == SelectSeq(calls, LAMBDA c : c.op \in {"Exists", "Open"})
CacheCalls(calls)  == SelectSeq(calls, LAMBDA c : c.op \in {"Get", "Put"})
Stepped == nops' = nops + 1

\* a successful GetTemplate is remembered: identical template, loader untouched.
\* Documented corner (Cache.Get / Set.GetTemplate: all candidate paths are probed in the cache first): if a
\* candidate path of n that comes *before* the one n was found at has meanwhile been cached by a request for
\* another name (x.jet vs x), that entry answers instead; the loader is still not touched.
EarlierCandidateCached(n, t) ==
  LET c == Cand(n) IN
  \E i, j \in 1..Len(c) : i < j /\ c[j] = t.path /\ cache[c[i]] # NoT
HitIdentity ==
  [][ (Stepped /\ ~Dev /\ last'.op = "GetTemplate" /\ lastOK[last'.n] # NoT)
        => /\ last'.ok /\ LoaderCalls(last'.calls) = <<>>
           /\ (~EarlierCandidateCached(last'.n, lastOK[last'.n]) => last'.t = lastOK[last'.n]) ]_vars

\* failures are never remembered: the cache only ever gains templates parsed successfully in this step
FailuresNeverCached ==
  [][ Stepped => \A k \in CacheKeys : cache'[k] # cache[k] =>
                    (cache'[k].tid > tidc /\ FileAt(files, cache'[k].path).k = "ok") ]_vars

\* ... and are retried: a failing lookup has consulted the loader in this very call
FailureConsultsLoader == (IsLookup(last) /\ ~last.ok) => LoaderCalls(last.calls) # <<>>

\* development mode: cache never used, result reflects the loader as it is now
DevAlwaysReloads ==
  Dev => /\ cache = EmptyCache
         /\ CacheCalls(last.calls) = <<>>
         /\ (IsLookup(last) /\ last.ok) =>
               /\ last.t.ver = FileAt(files, last.t.path).v
               /\ last.t.lpath # "" => last.t.lver = FileAt(files, last.t.lpath).v

\* Set.Parse adds nothing to the cache, neither its result nor what it pulls in
ParseNeverPuts ==
  [][ (Stepped /\ last'.op \in {"ParsePlain", "ParseExt"})
        => (cache' = cache /\ SelectSeq(last'.calls, LAMBDA c : c.op = "Put") = <<>>) ]_vars

\* loader candidates strictly in order, first existing wins
ExtensionOrder ==
  (IsLookup(last) /\ LoaderCalls(last.calls) # <<>>) =>
     LET c   == Cand(last.n)
         exs == SelectSeq(last.calls, LAMBDA q : q.op = "Exists" /\ q.path \in SeqRange(c))
         pre == SelectSeq(exs, LAMBDA q : TRUE)
         m   == Len(SelectSeq(last.calls, LAMBDA q : q.op = "Exists"))
     IN /\ \A i \in 1..Len(c) : (i <= Len(exs) /\ \A j \in 1..i : exs[j].path = c[j])
                                 \/ \E j \in 1..(i-1) : j <= Len(exs) /\ FileAt(files, c[j]).k # "absent"
        /\ last.ok => \/ last.t.path \in SeqRange(c)
                        /\ \A j \in 1..Len(c) : (c[j] = last.t.path) =>
                              \A i \in 1..(j-1) : FileAt(files, c[i]).k = "absent"

EmitVec == (Emit /\ nops = MaxOps) => PrintT(<<"VEC", ToJson([exts |-> Exts, dev |-> Dev, hist |-> hist])>>)

=============================================================================

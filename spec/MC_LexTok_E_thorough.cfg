SPECIFICATION Spec
CONSTANTS
  LD <- E_LD
  RD <- E_RD
  LC <- E_LC
  RC <- E_RC
  Alphabet <- E_Tok
  Headers <- NoHeader
  MaxLen = 5
  Emit = TRUE
INVARIANTS NoInvention EmitVec
CHECK_DEADLOCK FALSE

------------------------------- MODULE Gen_C09 -------------------------------
(* C09: include renders in place with the caller's variables and blocks, leaks   *)
(* nothing back; exec discards output and yields the last returned value;        *)
(* includeIfExists is include-or-nothing.                                        *)
EXTENDS JetProg
CONSTANTS Depth

Sites   == {"include", "includectx", "exec", "execctx", "incif", "incifctx", "incifmissing", "includemissing", "execmissing",
            "incifbroken", "includebroken", "execbroken", "includecomputed", "execctxnil", "includectxnil", "incifctxnil",
            "execown", "issetexecown", "includeown", "incifown"}     \* the callee defines a block named like one of the caller's
Shapes  == {"plain", "ext1", "ext2", "ext2r"}   \* ext2r: two levels of extends, the root layout ends with a return of its own
Returns == {"none", "top", "two", "inif", "inelse", "inrange", "intry", "nested", "thenif", "thentry", "theninclude", "nilret", "incatch", "incatchvar", "afterfailedtry", "retctx", "thenrangeelse", "thenrange", "thenifelse"}
SiteKinds == {"range", "ycont", "tryin", "include", "iflet"}

RetBody(rk) ==
  CASE rk = "none"        -> <<T("c0")>>
    [] rk = "top"         -> <<Ret("r1", Lit("rv1")), T("c0")>>
    [] rk = "two"         -> <<Ret("r1", Lit("rv1")), T("c0"), Ret("r2", Lit("rv2"))>>
    [] rk = "inif"        -> <<IfS("ci", Lit("true"), <<Ret("r1", Lit("rv1"))>>), T("c0")>>
    [] rk = "inelse"      -> <<IfElse("ci", Lit("false"), <<T("no")>>, <<Ret("r1", Lit("rv1"))>>), T("c0")>>
    [] rk = "inrange"     -> <<RangeS("cr", "none", "", "", "", ListE("slice", <<"ra", "rb">>), <<T("it"), Ret("r1", Ctx)>>), T("c0")>>
    [] rk = "intry"       -> <<TryS("ct", <<Ret("r1", Lit("rv1"))>>), T("c0")>>
    [] rk = "nested"      -> <<Incl("cn", "cal2"), T("c0")>>
    [] rk = "thenif"      -> <<Ret("r1", Lit("rv1")), IfS("ci", Lit("true"), <<T("c0")>>)>>
    [] rk = "thentry"     -> <<Ret("r1", Lit("rv1")), TryS("ct", <<T("c0")>>)>>
    [] rk = "theninclude" -> <<Ret("r1", Lit("rv1")), Incl("cn", "cal3")>>
    [] rk = "incatch"     -> <<TryCatchS("ct", <<T("tb"), P("tf", FailE)>>, "", <<Ret("r1", Lit("rv1"))>>), T("c0")>>
    [] rk = "incatchvar"  -> <<TryCatchS("ct", <<P("tf", FailE)>>, "e", <<T("cb"), Ret("r1", Lit("rv1"))>>), T("c0")>>
    [] rk = "afterfailedtry" -> <<Ret("r1", Lit("rv1")), TryS("ct", <<Ret("r2", Lit("rv2")), P("tf", FailE)>>), T("c0")>>
    \* a return stays the result while later constructs without a return of their own run
    [] rk = "thenrangeelse" -> <<Ret("r1", Lit("rv1")), RangeElse("cr", "none", "", "", "", ListE("slice", <<>>), <<T("no")>>, <<T("c0")>>)>>
    [] rk = "thenrange"   -> <<Ret("r1", Lit("rv1")), RangeS("cr", "none", "", "", "", ListE("slice", <<"ra">>), <<T("c0")>>)>>
    [] rk = "thenifelse"  -> <<Ret("r1", Lit("rv1")), IfElse("ci", Lit("false"), <<T("no")>>, <<T("c0")>>)>>
    [] rk = "nilret"      -> <<Ret("r1", Lit(Nil)), T("c0")>>
    [] rk = "retctx"      -> <<T("c0"), Ret("r1", Ctx)>>          \* what '.' was inside, made visible to exec's caller

MkC(par) ==
  LET path == par[1]  site == par[2]  shape == par[3]  rk == par[4]
      \* the callee also declares a variable through the Go-side API (Runtime.Let) at its top level
      \* the callee also writes through a SafeWriter: that goes where the rest of its output goes
      calbody == <<T("cs"), Raw("craw", Lit("cw")), Api("capi", "Let", "q2", Lit("apileak")), LetS("cl", "x2", Lit("cv")), P("cx2", Var("x2")), P("csv", Var("s")), P("cctx", Ctx),
                   YieldS("cyi", "ib", <<>>, NoE), RangeS("crg", "none", "", "", "", ListE("slice", <<"q1">>), <<P("cri", Ctx)>>)>>
                 \o RetBody(rk) \o <<T("ce")>>
      cal  == CASE shape = "plain" -> Tm("cal", "", <<>>, calbody)
                [] OTHER -> Tm("cal", "lay1", <<>>, <<BlockS("cbs", "slot", <<>>, NoE, calbody)>>)
      lay1 == IF shape \in {"ext2", "ext2r"} THEN Tm("lay1", "lay2", <<>>, <<BlockS("l1b", "slot2", <<>>, NoE, <<T("L1a"), BlockS("l1s", "slot", <<>>, NoE, <<T("L1slot")>>), T("L1b")>>)>>)
              ELSE Tm("lay1", "", <<>>, <<T("L1a"), BlockS("l1s", "slot", <<>>, NoE, <<T("L1slot")>>), T("L1b")>>)
      lay2 == Tm("lay2", "", <<>>, <<T("L2a"), BlockS("l2s", "slot2", <<>>, NoE, <<T("L2slot")>>), T("L2b")>>
                                     \o (IF shape = "ext2r" THEN <<Ret("l2r", Lit("rootret"))>> ELSE <<>>))
      call == CASE site = "include"        -> <<Incl("call", "cal")>>
                [] site = "includectx"     -> <<InclCx("call", "cal", Lit("C2"))>>
                [] site = "exec"           -> <<ExecLet("call", "r", "cal"), P("pr", Var("r"))>>
                [] site = "execctx"        -> <<ExecLetCx("call", "r", "cal", Lit("C2")), P("pr", Var("r"))>>
                \* an explicit context that evaluates to nil is still the context given: '.' is nil inside
                [] site = "execctxnil"     -> <<ExecLetCx("call", "r", "cal", NilVar), P("pr", Var("r"))>>
                [] site = "includectxnil"  -> <<InclCx("call", "cal", NilVar)>>
                [] site = "incifctxnil"    -> <<[IncIf("call", "cal") EXCEPT !.e = NilVar]>>
                [] site = "incif"          -> <<IncIf("call", "cal")>>
                [] site = "incifctx"       -> <<[IncIf("call", "cal") EXCEPT !.e = Lit("C2")]>>
                [] site = "incifmissing"   -> <<IncIf("call", "nosuch")>>
                [] site = "includemissing" -> <<Incl("call", "nosuch")>>
                [] site = "execmissing"    -> <<ExecLet("call", "r", "nosuch")>>
                [] site = "incifbroken"    -> <<IncIf("call", BrokenName)>>
                [] site = "includebroken"  -> <<Incl("call", BrokenName)>>
                [] site = "execbroken"     -> <<ExecLet("call", "r", BrokenName)>>
                \* the callee has a block "ib" of its own: the caller's "ib" is what the caller yields afterwards
                [] site = "execown"        -> <<ExecLet("call", "r", "calown"), YieldS("fy", "ib", <<>>, NoE)>>
                [] site = "issetexecown"   -> <<IsSetExec("call", "calown"), YieldS("fy", "ib", <<>>, NoE)>>      \* exec called outside any :=
                [] site = "includeown"     -> <<Incl("call", "calown"), YieldS("fy", "ib", <<>>, NoE)>>
                [] site = "incifown"       -> <<IncIf("call", "calown"), YieldS("fy", "ib", <<>>, NoE)>>
                \* one call site, a different template each time round
                [] site = "includecomputed" -> <<RangeS("ccr", "none", "", "", "", ListE("slice", <<"cca", "ccb", "cal3", "cca">>), <<Incl("call", "@ctx")>>)>>
      focal == <<T("f0"), Raw("fr0", Lit("w0"))>> \o call \o <<Raw("fr1", Lit("w1")), P("fs", Var("s")), P("fctx", Ctx), P("fi2", IsSetE("x2")), P("fiq", IsSetE("q2")), T("f1")>>
      r    == Build(path, 1, focal)
      main == <<BlockS("ibd", "ib", <<>>, NoE, <<T("IB")>>), T("pre"), LetS("ls", "s", Lit("s0"))>> \o r.main \o
              <<P("zs", Var("s")), P("zctx", Ctx), P("zi2", IsSetE("x2")), P("ziq", IsSetE("q2")), P("zir", IsSetE("r")), T("post")>>
  IN [ts |-> <<Tm("main", "", <<"lib">>, main), Tm("lib", "", <<>>, r.bl), cal, lay1, lay2,
               Tm("cal2", "", <<>>, <<T("n0"), Ret("nr", Lit("nv"))>>), Tm("cal3", "", <<>>, <<T("n3")>>),
               Tm("calown", "", <<>>, <<T("co0"), BlockS("cob", "ib", <<>>, NoE, <<T("CALIB")>>), YieldS("coy", "ib", <<>>, NoE), T("co1")>>),
               Tm("cca", "", <<>>, <<T("ca")>>), Tm("ccb", "", <<>>, <<T("cb"), P("cbx", Ctx)>>)>> \o r.ts,
      globals |-> NoVarsMap, runs |-> <<RunR("main", NoVarsMap, "D")>>,
      tag |-> PathTag(path) \o "|" \o site \o "|" \o shape \o "|" \o rk]

cParams == {p \in PathsUpTo(SiteKinds, Depth) \X Sites \X Shapes \X Returns :
              /\ (p[2] \in {"incifmissing", "includemissing", "execmissing", "incifbroken", "includebroken", "execbroken",
                            "execown", "issetexecown", "includeown", "incifown"} => p[3] = "plain" /\ p[4] = "none")
              /\ (p[2] = "includecomputed" => p[4] = "none")
              /\ (p[2] \in {"execctxnil", "includectxnil", "incifctxnil"} => p[4] \in {"none", "top", "retctx"})
              /\ (p[4] # "none" => p[2] \in {"exec", "execctx", "include", "execctxnil", "includectxnil", "incifctxnil"})
              /\ (p[3] # "plain" => p[4] \in {"none", "top", "retctx"})
              /\ (p[3] = "ext2r" => p[2] \in {"exec", "execctx"})}
=============================================================================

------------------------------- MODULE JetProg -------------------------------
(***************************************************************************)
(* Program constructors and the wrapper alphabet shared by the generator   *)
(* modules (Gen_*.tla): a program is a *path* of wrappers around a focal   *)
(* statement list.  Each wrapper says where the hole is (range body, else  *)
(* list, if-let arm, list after :=, yield content list, block body after   *)
(* {{yield content}}, included template, exec'd template, inner try, catch *)
(* body, block definition site).                                           *)
(***************************************************************************)
EXTENDS JetExec, Json, SequencesExt

cNames == {"s", "x1", "x2", "x3", "k", "v", "e", "p", "r", "g", "q1", "q2", "q3", "a", "b", "c", "lower"}

T(id)            == St("text", id)
P(id, e)         == [St("print", id) EXCEPT !.e = e]
Raw(id, e)       == [St("print", id) EXCEPT !.e = e, !.f = "raw"]
LetS(id, n, e)   == [St("let", id) EXCEPT !.n = n, !.e = e]
Lookup(id, n, n2, g) == [St("lookup", id) EXCEPT !.n = n, !.n2 = n2, !.g = g]
SetS(id, n, e)   == [St("set", id) EXCEPT !.n = n, !.e = e]
IfS(id, c, b)    == [St("if", id) EXCEPT !.e = c, !.b = b]
IfElse(id, c, b, b2) == [St("if", id) EXCEPT !.e = c, !.b = b, !.b2 = b2, !.f = "else"]
IfLet(id, n, e2, c, b) == [St("if", id) EXCEPT !.n = n, !.e2 = e2, !.e = c, !.b = b]
IfLetElse(id, n, e2, c, b, b2) == [St("if", id) EXCEPT !.n = n, !.e2 = e2, !.e = c, !.b = b, !.b2 = b2, !.f = "else"]
RangeS(id, form, n, n2, asg, coll, b) ==
  [St("range", id) EXCEPT !.f = form, !.n = n, !.n2 = n2, !.e2 = Ex("asg", asg), !.e = coll, !.b = b]
RangeElse(id, form, n, n2, asg, coll, b, b2) ==
  [RangeS(id, form, n, n2, asg, coll, b) EXCEPT !.b2 = b2, !.g = "else"]
TryS(id, b)      == [St("try", id) EXCEPT !.b = b]
TryCatchS(id, b, n, b2) == [St("try", id) EXCEPT !.b = b, !.f = "catch", !.n = n, !.b2 = b2]
BlockS(id, n, ps, cx, b) == [St("block", id) EXCEPT !.n = n, !.ps = ps, !.e = cx, !.b = b]
BlockC(id, n, ps, cx, b, b2) == [BlockS(id, n, ps, cx, b) EXCEPT !.f = "content", !.b2 = b2]
YieldS(id, n, ps, cx) == [St("yield", id) EXCEPT !.n = n, !.ps = ps, !.e = cx]
YieldC(id, n, ps, cx, b2) == [YieldS(id, n, ps, cx) EXCEPT !.f = "content", !.b2 = b2]
YContent(id)     == St("ycontent", id)
YContentCx(id, cx) == [St("ycontent", id) EXCEPT !.e = cx]
Incl(id, n)      == [St("include", id) EXCEPT !.n = n]
InclCx(id, n, cx) == [St("include", id) EXCEPT !.n = n, !.e = cx]
ExecLet(id, n, t) == [St("execlet", id) EXCEPT !.n = n, !.n2 = t]
IsSetExec(id, t) == [St("issetexec", id) EXCEPT !.n2 = t]
ExecLetCx(id, n, t, cx) == [St("execlet", id) EXCEPT !.n = n, !.n2 = t, !.e = cx]
IncIf(id, t)     == [St("incif", id) EXCEPT !.n2 = t]
Ret(id, e)       == [St("return", id) EXCEPT !.e = e]
BCall(n)         == Ex("bcall", n)          \* n("AbC") with n the name of a built-in function
BPipe(n)         == Ex("bpipe", n)          \* "AbC" | n
BColon(n)        == Ex("bcolon", n)         \* n: "AbC"
Api(id, f, n, e) == [St("api", id) EXCEPT !.f = f, !.n = n, !.e = e]

Tm(name, ext, imps, body) == [name |-> name, ext |-> ext, imps |-> imps, body |-> body]
NoVarsMap == [n \in cNames |-> Unset]
RunR(entry, vm, data) == [entry |-> entry, vars |-> vm, data |-> data]

---------------------------------------------------------------------------
(* Wrappers.  A build result carries the statement list for the hole's      *)
(* position, auxiliary templates and auxiliary block definitions (placed in *)
(* an imported library template so that defining them renders nothing).     *)

Res(main, ts, bl) == [main |-> main, ts |-> ts, bl |-> bl]
L(i) == ToString(i)

WrapKinds == {"range", "rangekv", "rangeelse", "if", "ifelse", "iflet", "ifletelse", "let",
              "ycont", "ycontp", "ydef", "yctx", "yctxp", "ybody", "ybodyp", "blockdef",
              "include", "includectx", "exec", "incif", "issetexec", "tryin", "tryincatch", "catchbody"}

\* the wrappers that push interpreter state (used for the deepest enumeration)
CoreKinds == {"range", "rangekv", "iflet", "let", "ycont", "ycontp", "yctx", "ybody", "ybodyp",
              "includectx", "exec", "issetexec", "tryin", "catchbody"}

\* the wrappers that install or consume yielded content
ContentKinds == {"ycont", "ycontp", "ydef", "yctx", "yctxp", "ybody", "ybodyp"}

\* wrappers without failures of their own (scoping programs)
ScopeKinds == WrapKinds \ {"catchbody"}

Wrap(kind, i, r) ==
  LET id(x) == kind \o L(i) \o x
      m  == r.main
      xn == "x" \o L(i)
  IN
  CASE kind = "range"     -> Res(<<RangeS(id(""), "none", "", "", "", ListE("slice", <<"a" \o L(i), "b" \o L(i)>>), m)>>, r.ts, r.bl)
    [] kind = "rangekv"   -> Res(<<RangeS(id(""), "kv", "k", "v", ":=", ListE("slice", <<"a" \o L(i)>>), m)>>, r.ts, r.bl)
    [] kind = "rangeelse" -> Res(<<RangeElse(id(""), "k", xn, "", ":=", ListE("slice", <<>>), <<T(id("never"))>>, m)>>, r.ts, r.bl)
    [] kind = "if"        -> Res(<<IfS(id(""), Lit("true"), m)>>, r.ts, r.bl)
    [] kind = "ifelse"    -> Res(<<IfElse(id(""), Lit("false"), <<T(id("never"))>>, m)>>, r.ts, r.bl)
    [] kind = "iflet"     -> Res(<<IfLet(id(""), xn, Lit("v" \o L(i)), Lit("true"), m)>>, r.ts, r.bl)
    [] kind = "ifletelse" -> Res(<<IfLetElse(id(""), xn, Lit("v" \o L(i)), Lit("false"), <<T(id("never"))>>, m)>>, r.ts, r.bl)
    [] kind = "let"       -> Res(<<LetS(id(""), xn, Lit("v" \o L(i)))>> \o m, r.ts, r.bl)
    [] kind = "ycont"     -> Res(<<YieldC(id(""), "bw" \o L(i), <<>>, NoE, m)>>, r.ts,
                                 r.bl \o <<BlockS(id("d"), "bw" \o L(i), <<>>, NoE,
                                                   <<LetS(id("l"), "s", Lit("bl" \o L(i))), LetS(id("l2"), xn, Lit("bx" \o L(i))), T(id("a")),
                                                     YContent(id("y")), P(id("b"), Var("s"))>>)>>)
    [] kind = "ycontp"    -> Res(<<YieldC(id(""), "bp" \o L(i), <<Par("p", Lit("pv" \o L(i)))>>, NoE, m)>>, r.ts,
                                 r.bl \o <<BlockS(id("d"), "bp" \o L(i), <<Par("p", Lit("pd"))>>, NoE, <<P(id("a"), Var("p")), YContent(id("y")), T(id("b"))>>)>>)
    \* the yield omits both declared parameters although the caller has variables of the same names: the defaults win
    [] kind = "ydef"      -> Res(<<LetS(id("o"), "p", Lit("op" \o L(i))), YieldC(id(""), "bf" \o L(i), <<>>, NoE, m)>>, r.ts,
                                 r.bl \o <<BlockS(id("d"), "bf" \o L(i), <<Par("p", Lit("pd" \o L(i))), Par("s", Lit("sd" \o L(i)))>>, NoE,
                                                   <<P(id("a"), Var("p")), P(id("a2"), Var("s")), YContent(id("y")), T(id("b"))>>)>>)
    [] kind = "yctx"      -> Res(<<YieldC(id(""), "bc" \o L(i), <<>>, Lit("c" \o L(i)), m)>>, r.ts,
                                 r.bl \o <<BlockS(id("d"), "bc" \o L(i), <<>>, NoE,
                                                   <<P(id("a"), Ctx), LetS(id("l"), "s", Lit("bl" \o L(i))), YContentCx(id("y"), Lit("cc" \o L(i))), P(id("b"), Var("s"))>>)>>)
    \* an explicit context AND an argument that reads '.': the argument is evaluated with the caller's '.'
    [] kind = "yctxp"     -> Res(<<YieldC(id(""), "br" \o L(i), <<Par("p", Ctx)>>, Lit("cq" \o L(i)), m)>>, r.ts,
                                 r.bl \o <<BlockS(id("d"), "br" \o L(i), <<Par("p", Lit("pd")), Par("q1", Ctx)>>, NoE,
                                                   <<P(id("a"), Var("p")), P(id("a2"), Var("q1")), P(id("a3"), Ctx), YContent(id("y")), T(id("b"))>>)>>)
    [] kind = "ybody"     -> Res(<<YieldC(id(""), "bb" \o L(i), <<>>, NoE, <<T(id("cc"))>>)>>, r.ts,
                                 r.bl \o <<BlockS(id("d"), "bb" \o L(i), <<>>, NoE, <<YContent(id("y"))>> \o m)>>)
    [] kind = "ybodyp"    -> Res(<<YieldC(id(""), "bq" \o L(i), <<Par("p", Lit("pv" \o L(i)))>>, Lit("c" \o L(i)), <<T(id("cc"))>>)>>, r.ts,
                                 r.bl \o <<BlockS(id("d"), "bq" \o L(i), <<Par("p", NoE)>>, NoE, <<YContent(id("y"))>> \o m)>>)
    [] kind = "blockdef"  -> Res(<<BlockS(id(""), "bd" \o L(i), <<>>, NoE, m)>>, r.ts, r.bl)
    [] kind = "include"   -> Res(<<Incl(id(""), "inc" \o L(i))>>, r.ts \o <<Tm("inc" \o L(i), "", <<>>, m)>>, r.bl)
    [] kind = "includectx"-> Res(<<InclCx(id(""), "inc" \o L(i), Lit("ic" \o L(i)))>>, r.ts \o <<Tm("inc" \o L(i), "", <<>>, m)>>, r.bl)
    [] kind = "exec"      -> Res(<<ExecLet(id(""), "r", "inc" \o L(i))>>, r.ts \o <<Tm("inc" \o L(i), "", <<>>, m)>>, r.bl)
    \* {{ includeIfExists("t") }}: rendered in place, straight to the current writer
    [] kind = "incif"     -> Res(<<IncIf(id(""), "inc" \o L(i))>>, r.ts \o <<Tm("inc" \o L(i), "", <<>>, m)>>, r.bl)
    \* exec / include of a template that EXTENDS a layout and overrides its block: the hole is in the override
    [] kind \in {"execext", "includeext"} ->
         Res(IF kind = "execext" THEN <<ExecLet(id(""), "r", "xc" \o L(i))>> ELSE <<Incl(id(""), "xc" \o L(i))>>,
             r.ts \o <<Tm("xc" \o L(i), "xl" \o L(i), <<>>, <<BlockS(id("ov"), "xslot" \o L(i), <<>>, NoE, m)>>),
                       Tm("xl" \o L(i), "", <<>>, <<T(id("la")), BlockS(id("ls"), "xslot" \o L(i), <<>>, NoE, <<T(id("dflt"))>>), T(id("lb"))>>)>>, r.bl)
    \* a failure below is swallowed by isset: rendering goes on as if the expression had not been evaluated
    [] kind = "issetexec" -> Res(<<IsSetExec(id(""), "ise" \o L(i))>>, r.ts \o <<Tm("ise" \o L(i), "", <<>>, m)>>, r.bl)
    [] kind = "tryin"     -> Res(<<TryS(id(""), m)>>, r.ts, r.bl)
    [] kind = "tryincatch"-> Res(<<TryCatchS(id(""), m, "", <<T(id("c"))>>)>>, r.ts, r.bl)
    [] kind = "catchbody" -> Res(<<TryCatchS(id(""), <<P(id("f"), FailE)>>, "e", m)>>, r.ts, r.bl)

RECURSIVE Build(_, _, _)
Build(path, i, focal) ==
  IF path = <<>> THEN Res(focal, <<>>, <<>>)
  ELSE Wrap(Head(path), i, Build(Tail(path), i + 1, focal))

\* all paths of length <= d over a set of wrapper kinds
PathsUpTo(K, d) == UNION {[1..n -> K] : n \in 0..d}

RECURSIVE PathTag(_)
PathTag(p) == IF p = <<>> THEN "" ELSE Head(p) \o (IF Len(p) > 1 THEN "/" ELSE "") \o PathTag(Tail(p))

\* probes rendered before and after the construct under test
Probes(pfx) == << P(pfx \o "ctx", Ctx), P(pfx \o "s", Var("s")),
                  P(pfx \o "i1", IsSetE("x1")), P(pfx \o "i2", IsSetE("x2")), P(pfx \o "i3", IsSetE("x3")),
                  P(pfx \o "ik", IsSetE("k")), P(pfx \o "ie", IsSetE("e")), P(pfx \o "ip", IsSetE("p")),
                  YContent(pfx \o "yc"), T(pfx \o "t") >>

EmitVec == Done => PrintT(<<"VEC", ToJson([case |-> Case, results |-> results, tag |-> Case.tag])>>)
=============================================================================

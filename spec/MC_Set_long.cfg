SPECIFICATION Spec
CONSTANTS
  Exts <- cExtsLong
  Dev = FALSE
  MaxOps = 4
  InitWorlds <- cWorlds
  PutKey = "found"
  Emit = FALSE
VIEW view
INVARIANTS FailureConsultsLoader DevAlwaysReloads ExtensionOrder
PROPERTIES HitIdentity FailuresNeverCached ParseNeverPuts
CHECK_DEADLOCK FALSE

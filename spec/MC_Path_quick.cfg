SPECIFICATION Spec
CONSTANTS
  MaxSegs = 3
  MaxDepth = 2
  ExtLists <- cExtListsQuick
  Emit = TRUE
INVARIANTS CanonClean CanonIdempotent CallsCanonical NoOpSegmentsIrrelevant EmitVec
CHECK_DEADLOCK FALSE

----------------------------- MODULE Trace_Exec -----------------------------
(***************************************************************************)
(* code -> spec for the interpreter: the event stream recorded by the      *)
(* `verif` hooks (one event per linearization point, with a projection of  *)
(* the Runtime: scope-chain depth, digest of '.', content bound?, writer   *)
(* class, bytes in the caller's writer) is accepted only if it is a        *)
(* behaviour of this monitor, which carries the same frame discipline as   *)
(* JetExec.tla:                                                            *)
(*   - every construct that ends normally leaves depth, '.', content and    *)
(*     writer as they were when it began              (C07, C09, C13)      *)
(*   - constructs abandoned by a panic are popped without a check, except   *)
(*     that deferred ends (list, include, try) restore the scope depth      *)
(*   - when a try catches, everything is as it was at try.begin   (C13)    *)
(*   - bytes reach the caller's writer only while the writer is the         *)
(*     caller's; a failed try adds nothing                    (C13, C09)   *)
(*   - an execution starts and ends with a clean Runtime          (C10)    *)
(*   - isset that swallows a failure resumes normal rendering               *)
(* Traces of many executions are concatenated (exec.found restarts).       *)
(***************************************************************************)
EXTENDS Integers, Sequences, TLC, Json

Trace == ndJsonDeserialize("trace_exec.ndjson")

VARIABLES l, stack, mode, lastout
vars == <<l, stack, mode, lastout>>

Ev == Trace[l]
Proj(e) == [depth |-> e.depth, ctx |-> e.ctx, content |-> e.content, writer |-> e.writer]
Frame(k, e) == [k |-> k, p |-> Proj(e)]
Top == stack[Len(stack)]
Pop(s) == SubSeq(s, 1, Len(s) - 1)
Has(k) == \E i \in 1..Len(stack) : stack[i].k = k
\* index of the innermost frame of kind k
Innermost(k) == CHOOSE i \in 1..Len(stack) : stack[i].k = k /\ \A j \in (i+1)..Len(stack) : stack[j].k # k

Kinds == {"list", "if", "range", "try", "yield", "content", "include"}
Deferred == {"list", "include", "try"}      \* their end hook also fires while a panic unwinds
BeginOf(ev) == CASE ev = "list.begin" -> "list" [] ev = "if.begin" -> "if" [] ev = "range.begin" -> "range"
                 [] ev = "try.begin" -> "try" [] ev = "yield.begin" -> "yield" [] ev = "content.begin" -> "content"
                 [] ev = "include.begin" -> "include" [] OTHER -> ""
EndOf(ev) == CASE ev = "list.end" -> "list" [] ev = "if.end" -> "if" [] ev = "range.end" -> "range"
               [] ev = "try.end" -> "try" [] ev = "yield.end" -> "yield" [] ev = "content.end" -> "content"
               [] ev = "include.end" -> "include" [] OTHER -> ""

\* bytes in the caller's writer only grow, and only while the current writer is the caller's
OutOK(e) == e.outlen = -1 \/ lastout = -1 \/
            IF e.writer = "out" \/ e.ev \in {"try.end", "try.commit"} THEN e.outlen >= lastout ELSE e.outlen = lastout

Init == l = 1 /\ stack = <<>> /\ mode = "idle" /\ lastout = -1

Step ==
  /\ l <= Len(Trace)
  /\ l' = l + 1
  /\ LET e == Ev IN
     CASE e.ev = "exec.found" ->
            \* the pooled Runtime as it is handed out: nothing of an earlier execution may be left (C10)
            /\ e.depth = 1 /\ ~e.content /\ e.ctx = "<invalid>"
            /\ stack' = <<>> /\ mode' = "found" /\ lastout' = -1
       [] e.ev = "exec.begin" ->
            /\ mode = "found"
            /\ stack' = <<Frame("exec", e)>> /\ mode' = "run" /\ lastout' = e.outlen
       [] e.ev = "exec.end" ->
            /\ mode \in {"run", "unwind"}
            /\ e.depth = 1 /\ ~e.content /\ e.ctx = "<invalid>"      \* recover() resets the Runtime
            /\ (mode = "run" => Len(stack) = 1)                       \* every construct has ended
            /\ stack' = <<>> /\ mode' = "idle" /\ lastout' = -1
       [] BeginOf(e.ev) # "" ->
            /\ mode = "run" /\ OutOK(e)
            /\ stack' = Append(stack, Frame(BeginOf(e.ev), e)) /\ UNCHANGED mode /\ lastout' = e.outlen
       [] e.ev = "try.catch" ->
            \* the panic reached a try: frames above it are abandoned; state is that of try.begin
            /\ Has("try")
            /\ LET i == Innermost("try") IN
               /\ Proj(e) = stack[i].p
               /\ e.outlen = lastout
               /\ stack' = SubSeq(stack, 1, i)
            /\ mode' = "run" /\ lastout' = e.outlen
       [] EndOf(e.ev) # "" ->
            LET k == EndOf(e.ev)
                \* a list that did not end normally is being unwound by a panic (the hook says so);
                \* every other end seen while unwinding is a deferred one
                unwinding == mode = "unwind" \/ (k = "list" /\ ~e.normal)
            IN
            /\ mode \in {"run", "unwind"} /\ Has(k) /\ OutOK(e)
            /\ IF ~unwinding
               THEN \* normal end: the construct on top ends and everything is restored
                    /\ Top.k = k
                    /\ Proj(e) = Top.p
                    /\ stack' = Pop(stack) /\ UNCHANGED mode
               ELSE \* a panic is unwinding: only deferred ends are seen; frames above are abandoned;
                    \* an include restores the scope saved at its entry (a list only if it opened one)
                    /\ k \in Deferred
                    /\ LET i == Innermost(k) IN
                       /\ (k = "include" => e.depth = stack[i].p.depth)
                       /\ stack' = SubSeq(stack, 1, i - 1)
                    /\ mode' = "unwind"
            /\ lastout' = e.outlen
       [] e.ev \in {"text", "render", "assign", "return", "range.iter", "try.commit"} ->
            /\ mode = "run" /\ OutOK(e)
            /\ UNCHANGED <<stack, mode>> /\ lastout' = e.outlen
       [] e.ev = "isset.recover" ->
            \* isset swallowed a failure: the deferred ends seen so far have already removed the abandoned
            \* frames (an exec / include inside isset ends by defer); rendering goes on normally
            /\ mode \in {"run", "unwind"} /\ OutOK(e)
            /\ mode' = "run" /\ UNCHANGED stack /\ lastout' = e.outlen
       [] e.ev = "raise" -> UNCHANGED <<stack, mode, lastout>>

Spec == Init /\ [][Step]_vars

TypeOK == mode \in {"idle", "found", "run", "unwind"}

TraceAccepted ==
  LET n == TLCGet("stats").diameter - 1 IN
  IF n = Len(Trace) THEN TRUE ELSE PrintT(<<"TRACE-REJECTED-AFTER", n>>) /\ FALSE
=============================================================================

SPECIFICATION Spec
CONSTANTS
  Emit = TRUE
INVARIANTS VisitsEachOnce NeverTwice EmitVec
CHECK_DEADLOCK FALSE

------------------------------- MODULE Gen_C08 -------------------------------
(* C08: extends renders the root layout; every block definition site and yield   *)
(* renders the most-derived definition (own, later imports over earlier, then    *)
(* the extended chain); named arguments in any order, omitted ones take their    *)
(* defaults; yield content renders the caller's content in the caller's scope.   *)
EXTENDS JetProg
CONSTANT Families       \* which program families to enumerate: a subset of {"tree", "params", "shared", "alias", "content"}

Files == <<"leaf", "mid", "root", "i1", "i2", "i3">>
\* every definition declares a parameter with a default of its own: whichever definition is rendered, at a yield
\* or at a definition site, brings its own defaults
Def(file, b) == BlockS(file \o b \o "d", b, <<Par("q1", Lit(file \o b \o "dflt"))>>, NoE, <<T(file \o ":" \o b), P(file \o b \o "q", Var("q1"))>>)

\* par = <<"tree", chain, nimp, mask1 (files defining b1), mask2 (files defining b2), site>>
MkTree(par) ==
  LET chain == par[2]  nimp == par[3]  m1 == par[4]  m2 == par[5]  site == par[6]
      defs(f) == (IF f \in m1 THEN <<Def(f, "b1")>> ELSE <<>>) \o (IF f \in m2 THEN <<Def(f, "b2")>> ELSE <<>>)
      rootname == IF chain = 0 THEN "leaf" ELSE IF chain = 1 THEN "mid" ELSE "root"
      \* the body that is actually rendered (root of the chain): text, a yield, a definition site, a yield in a range
      layout(f) == <<T(f \o ":top")>> \o
                   (CASE site \in {"yield", "viainclude", "viaexec"} -> <<YieldS("y1", "b1", <<>>, NoE)>>
                      [] site = "defsite" -> <<BlockS(f \o "b1site", "b1", <<Par("q1", Lit(f \o "sitedflt"))>>, NoE, <<T(f \o ":b1site"), P(f \o "siteq", Var("q1"))>>)>>
                      [] site = "inrange" -> <<RangeS("rg", "none", "", "", "", ListE("slice", <<"e1", "e2">>), <<YieldS("y1", "b1", <<>>, NoE)>>)>>
                      [] site = "inblock" -> <<BlockS(f \o "wrapd", "wrap", <<>>, NoE, <<T("w("), YieldS("y1", "b1", <<>>, NoE), T(")")>>)>>
                      [] site = "incontent" -> <<YieldC("yw", "b2", <<>>, NoE, <<YieldS("y1", "b1", <<>>, NoE)>>)>>
                      \* rendering another template that has blocks of the same names leaves the caller's block table alone
                      [] site = "afterincif"   -> <<IncIf("ii", "i3"), YieldS("y1", "b1", <<>>, NoE)>>
                      [] site = "afterinclude" -> <<Incl("ii", "i3"), YieldS("y1", "b1", <<>>, NoE)>>
                      [] site = "afterexec"    -> <<ExecLet("ii", "r", "i3"), YieldS("y1", "b1", <<>>, NoE)>>)
                   \o <<YieldS("y2", "b2", <<>>, NoE), T(f \o ":end")>>
      body(f) == IF f = rootname THEN defs(f) \o layout(f) ELSE <<T(f \o ":junk")>> \o defs(f) \o <<T(f \o ":junk2")>>
      imps(f) == IF f = "leaf" THEN SubSeq(<<"i1", "i2">>, 1, nimp) ELSE IF f = "mid" /\ nimp = 2 THEN <<"i3">> ELSE <<>>
      ext(f)  == IF f = "leaf" /\ chain >= 1 THEN "mid" ELSE IF f = "mid" /\ chain = 2 THEN "root" ELSE ""
      \* the leaf rendered from another template: {{include}} / exec() resolve its blocks like Execute does
      outer == Tm("outer", "", <<>>, <<T("o(")>> \o (IF site = "viaexec" THEN <<ExecLet("oi", "r", "leaf")>> ELSE <<Incl("oi", "leaf")>>) \o <<T(")")>>)
  IN [ts |-> [i \in 1..Len(Files) |-> Tm(Files[i], ext(Files[i]), imps(Files[i]), body(Files[i]))] \o <<outer>>,
      globals |-> NoVarsMap, runs |-> <<RunR(IF site \in {"viainclude", "viaexec"} THEN "outer" ELSE "leaf", NoVarsMap, "D")>>,
      tag |-> "tree|" \o ToString(chain) \o "|" \o ToString(nimp) \o "|" \o site]

\* named arguments: every ordered selection of the declared parameters
Perms(S) == UNION {{f \in [1..n -> S] : \A i, j \in 1..n : i # j => f[i] # f[j]} : n \in 0..Cardinality(S)}
MkParams(par) ==
  LET args == par[2]  where == par[3]
      decl == <<Par("a", NoE), Par("b", Lit("db")), Par("c", Var("a"))>>     \* c defaults to the value of a
      blk  == BlockS("bpd", "bp", decl, NoE, <<T("("), P("pa", Var("a")), P("pb", Var("b")), P("pc", Var("c")), T(")")>>)
      y    == YieldS("yp", "bp", [i \in 1..Len(args) |-> Par(args[i], Lit("A" \o args[i]))], NoE)
      main == <<LetS("la", "a", Lit("outerA")), T("pre"), y, P("za", Var("a")), P("zib", IsSetE("b")), T("post")>>
      ent  == IF where = "import" THEN Tm("leaf", "", <<"lib">>, main) ELSE Tm("leaf", "base", <<>>, <<blk>>)
      base == Tm("base", "", <<>>, main)
  IN [ts |-> <<ent, Tm("lib", "", <<>>, <<blk>>), base>>, globals |-> NoVarsMap, runs |-> <<RunR("leaf", NoVarsMap, "D")>>,
      tag |-> "params|" \o PathTag(args) \o "|" \o where]

\* content: supplied by the caller / the block's default / absent; content in content; content sees the caller's scope
MkContent(par) ==
  LET ck == par[2]  nest == par[3]  tryfail == par[4] = "tryfail"
      \* a yield with content that fails inside a try in the block: the caller's content is still the one rendered after it
      failing == IF tryfail THEN <<TryS("bt", <<YieldC("yf", "bfail", <<>>, NoE, <<T("INNER")>>)>>)>>
                 \* the same failure, below an exec whose failure isset swallows
                 ELSE IF par[4] = "issetfail" THEN <<IsSetExec("bi", "boom")>> ELSE <<>>
      boom == Tm("boom", "", <<"lib">>, <<T("bm0"), YieldC("yf2", "bfail", <<>>, NoE, <<T("INNER2")>>), T("bm1")>>)
      \* inside the block (the caller's content is the active one): a yield with an EMPTY content section, and a
      \* definition site whose default content is empty - {{yield content}} in there renders nothing
      empties == IF par[4] = "emptyinner" THEN <<YieldC("ye", "bempty", <<>>, NoE, <<>>)>>
                 ELSE IF par[4] = "emptydef" THEN <<BlockC("bed2", "bempty2", <<>>, NoE, <<T("e2("), YContent("ey2"), T(")")>>, <<>>)>> ELSE <<>>
      bempty == BlockS("bed", "bempty", <<>>, NoE, <<T("e("), YContent("ey"), T(")")>>)
      bfail == BlockS("bfd", "bfail", <<>>, NoE, <<T("bf("), YContent("bfy"), P("bff", FailE), T(")")>>)
      blk  == BlockC("bcd", "bc", <<Par("p", Lit("dp"))>>, NoE,
                     <<LetS("bl", "s", Lit("blocal")), T("<")>> \o failing \o empties \o <<YContent("byc"), T("|"), YContentCx("byc2", Lit("cx2")), T(">")>>,
                     <<T("defcontent"), P("dcs", IsSetE("s"))>>)
      inner == IF nest THEN <<YieldC("yin", "bc", <<Par("p", Lit("p2"))>>, NoE, <<P("ins", Var("s")), P("inp", Var("p")), P("inctx", Ctx)>>)>> ELSE <<>>
      cbody == <<P("cs", Var("s")), P("cp", IsSetE("p")), P("cctx", Ctx)>> \o inner
      y    == CASE ck = "caller"  -> YieldC("yc", "bc", <<Par("p", Lit("p1"))>>, NoE, cbody)
                [] ck = "none"    -> YieldS("yc", "bc", <<>>, NoE)
                [] ck = "defsite" -> blk
      main == <<LetS("ls", "s", Lit("s0")), T("pre"), y, P("zs", Var("s")), T("post")>>
  IN [ts |-> <<Tm("leaf", "", <<"lib">>, main), Tm("lib", "", <<>>, (IF ck = "defsite" THEN <<>> ELSE <<blk>>) \o <<bfail, bempty>>), boom>>,
      globals |-> NoVarsMap, runs |-> <<RunR("leaf", NoVarsMap, "D")>>,
      tag |-> "content|" \o ck \o (IF nest THEN "|nest" ELSE "") \o (IF par[4] # "" THEN "|" \o par[4] ELSE "")]

\* two entry templates sharing an imported library: parsing one must not change what the other renders
MkShared(par) ==
  LET order == par[2]  ext == par[3]
      lib   == Tm("i1", "", <<>>, <<Def("i1", "b1"), Def("i1", "b2")>>)
      a     == Tm("leaf", "", <<"i1">>, <<Def("leaf", "b1"), T("A("), YieldS("y1", "b1", <<>>, NoE), YieldS("y2", "b2", <<>>, NoE), T(")")>>)
      b     == Tm("other", IF ext THEN "i1" ELSE "", IF ext THEN <<>> ELSE <<"i1">>,
                  IF ext THEN <<>> ELSE <<T("B("), YieldS("y1", "b1", <<>>, NoE), YieldS("y2", "b2", <<>>, NoE), T(")")>>)
      ra    == RunR("leaf", NoVarsMap, "D")
      rb    == RunR("other", NoVarsMap, "D")
      rl    == RunR("i1", NoVarsMap, "D")
  IN [ts |-> <<a, b, lib>>, globals |-> NoVarsMap,
      runs |-> IF order = "ab" THEN <<ra, rb, rl, ra>> ELSE <<rb, ra, rb, rl>>,
      tag |-> "shared|" \o order \o (IF ext THEN "|ext" ELSE "|imp")]

\* a template without definitions of its own takes its block table from two sources (extends + import, or two
\* imports); building it must not write into the tables of the cached layout / library
MkAlias(par) ==
  LET order == par[2]
      base   == Tm("root", "", <<>>, <<Def("root", "b1"), T("R("), YieldS("y1", "b1", <<>>, NoE), T(")")>>)
      theme  == Tm("i1", "", <<>>, <<Def("i1", "b1")>>)
      theme2 == Tm("i2", "", <<>>, <<Def("i2", "b1"), Def("i2", "b2")>>)
      themed == Tm("leaf", "root", <<"i1">>, <<T("leaf:junk")>>)
      plain  == Tm("mid", "root", <<>>, <<T("mid:junk")>>)
      twoimp == Tm("other", "", <<"i1", "i2">>, <<T("O("), YieldS("y1", "b1", <<>>, NoE), YieldS("y2", "b2", <<>>, NoE), T(")")>>)
      rn(n) == RunR(n, NoVarsMap, "D")
  IN [ts |-> <<themed, plain, base, theme, theme2, twoimp>>, globals |-> NoVarsMap,
      runs |-> (CASE order = 1 -> <<rn("leaf"), rn("root"), rn("mid"), rn("leaf")>>
                 [] order = 2 -> <<rn("mid"), rn("leaf"), rn("root"), rn("mid")>>
                 [] order = 3 -> <<rn("root"), rn("leaf"), rn("mid"), rn("root")>>
                 [] order = 4 -> <<rn("other"), rn("i1"), rn("i2"), rn("other"), rn("leaf"), rn("root")>>),
      tag |-> "alias|" \o ToString(order)]

MkC(par) == CASE par[1] = "alias" -> MkAlias(par) [] par[1] = "shared" -> MkShared(par) [] par[1] = "tree" -> MkTree(par) [] par[1] = "params" -> MkParams(par) [] par[1] = "content" -> MkContent(par)

FileSet == {"leaf", "mid", "root", "i1", "i2", "i3"}
AllParams == ({"tree"} \X (0..2) \X (0..2) \X (SUBSET FileSet) \X {{}, {"leaf"}, {"root"}, {"i2", "mid"}} \X
              {"yield", "defsite", "inrange", "inblock", "incontent", "afterincif", "afterinclude", "afterexec", "viainclude", "viaexec"})
      \cup ({"params"} \X Perms({"a", "b", "c"}) \X {"import", "extends"})
      \cup ({"shared"} \X {"ab", "ba"} \X BOOLEAN)
      \cup ({"alias"} \X (1..4))
      \cup ({"content"} \X {"caller", "none", "defsite"} \X BOOLEAN \X {"", "tryfail", "emptyinner", "emptydef", "issetfail"})
cParams == IF "tree" \in Families THEN AllParams
           ELSE (IF "params" \in Families THEN {"params"} \X Perms({"a", "b", "c"}) \X {"import", "extends"} ELSE {})
                \cup (IF "shared" \in Families THEN {"shared"} \X {"ab", "ba"} \X BOOLEAN ELSE {})
                \cup (IF "alias" \in Families THEN {"alias"} \X (1..4) ELSE {})
                \cup (IF "content" \in Families THEN {"content"} \X {"caller", "none", "defsite"} \X BOOLEAN \X {"", "tryfail", "emptyinner", "emptydef", "issetfail"} ELSE {})
=============================================================================

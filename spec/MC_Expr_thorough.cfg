SPECIFICATION Spec
CONSTANTS
  Shapes = {"L2", "R2", "NEG3", "L3"}
  LeafPool = {"iv7", "in3", "f15", "iv1", "ss", "bf", "pt", "idx", "call", "paren", "fld", "cfld", "f32v", "u7"}
  BinOps <- cBinOps
  Emit = TRUE
INVARIANTS BoolOps IntClosed EmitVec
CHECK_DEADLOCK FALSE

------------------------------- MODULE Gen_C13 -------------------------------
(* C13: try is all-or-nothing.  Every wrapper path of depth <= Depth inside a   *)
(* try body, around a focal point that succeeds or fails (three failure        *)
(* classes), with no catch / catch / catch with variable, at top level and      *)
(* inside a block that was yielded with content; probes before and after.       *)
EXTENDS JetProg
CONSTANTS Depth, Kinds

Focals == {"ok", "fail", "failvar", "failset"}
Catches == {"none", "catch", "catchvar"}
Outers == {"top", "inblock"}

Focal(f) ==
  CASE f = "ok"      -> <<T("f0"), P("fp", Ctx)>>
    [] f = "fail"    -> <<T("f0"), P("ff", FailE), T("f1")>>
    [] f = "failvar" -> <<T("f0"), P("ff", Var("g")), T("f1")>>
    [] f = "failset" -> <<SetS("ff", "g", Lit("z")), T("f1")>>

MkC(par) ==
  LET path == par[1]  f == par[2]  c == par[3]  o == par[4]
      r    == Build(path, 1, Focal(f))
      try  == CASE c = "none"     -> TryS("try", r.main)
                [] c = "catch"    -> TryCatchS("try", r.main, "", <<T("c0"), P("cctx", Ctx)>>)
                [] c = "catchvar" -> TryCatchS("try", r.main, "e", <<T("c0"), P("cie", IsSetE("e")), P("cs", Var("s"))>>)
      main == <<T("pre"), LetS("ls", "s", Lit("s0"))>> \o Probes("a") \o <<try>> \o Probes("z")
      lib  == Tm("lib", "", <<>>, r.bl \o (IF o = "inblock" THEN <<BlockS("hostd", "host", <<>>, NoE, main)>> ELSE <<>>))
      ent  == IF o = "top" THEN Tm("main", "", <<"lib">>, main)
              ELSE Tm("main", "", <<"lib">>, <<YieldC("yh", "host", <<>>, NoE, <<T("C")>>)>>)
  IN [ts |-> <<ent, lib>> \o r.ts, globals |-> NoVarsMap, runs |-> <<RunR("main", NoVarsMap, "D")>>,
      tag |-> PathTag(path) \o "|" \o f \o "|" \o c \o "|" \o o]

cParams == PathsUpTo(Kinds, Depth) \X Focals \X Catches \X Outers
=============================================================================

------------------------------- MODULE Gen_C13 -------------------------------
(* C13: try is all-or-nothing.  Every wrapper path of depth <= Depth inside a   *)
(* try body, around a focal point that succeeds or fails (three failure        *)
(* classes), with no catch / catch / catch with variable, at top level and      *)
(* inside a block that was yielded with content; probes before and after.       *)
EXTENDS JetProg
CONSTANTS Depth, Kinds

Focals == {"ok", "fail", "failvar", "failset", "swok", "swfail", "ycok", "ycfail", "panicval", "rterr"}
Catches == {"none", "catch", "catchvar", "catchfail", "catchvarshadow"}
Outers == {"top", "inblock"}

Focal(f) ==
  CASE f = "ok"      -> <<T("f0"), P("fp", Ctx)>>
    [] f = "fail"    -> <<T("f0"), P("ff", FailE), T("f1")>>
    [] f = "failvar" -> <<T("f0"), P("ff", Var("g")), T("f1")>>
    [] f = "failset" -> <<SetS("ff", "g", Lit("z")), T("f1")>>
    \* a SafeWriter stage writes to the try buffer like everything else: in order, and not at all when the body fails
    [] f = "swok"    -> <<T("f0"), Raw("fw", Lit("w1")), T("f1")>>
    \* {{yield content}} inside the try body (inside a block that was yielded with content): the content goes through
    \* the try buffer like everything else
    [] f = "ycok"    -> <<T("f0"), YContent("fyc"), T("f1")>>
    [] f = "ycfail"  -> <<T("f0"), YContent("fyc"), P("ff", FailE), T("f1")>>
    \* a try takes whatever stops its body: a user function panicking with a value that is no error, a Go runtime error
    [] f = "panicval" -> <<T("f0"), P("ff", Ex("err", "panic")), T("f1")>>
    [] f = "rterr"    -> <<T("f0"), P("ff", Ex("err", "rterror")), T("f1")>>
    [] f = "swfail"  -> <<T("f0"), Raw("fw", Lit("w1")), P("ff", FailE), T("f1")>>

MkC(par) ==
  LET path == par[1]  f == par[2]  c == par[3]  o == par[4]
      r    == Build(path, 1, Focal(f))
      try  == CASE c = "none"     -> TryS("try", r.main)
                [] c = "catch"    -> TryCatchS("try", r.main, "", <<T("c0"), P("cctx", Ctx)>>)
                [] c = "catchvar" -> TryCatchS("try", r.main, "e", <<T("c0"), P("cie", IsSetE("e")), P("cs", Var("s"))>>)
                \* a variable named like the catch variable is already visible: the catch variable shadows it inside
                \* the catch body only
                [] c = "catchvarshadow" -> TryCatchS("try", r.main, "x3", <<T("c0"), P("cie", IsSetE("x3")), SetS("cset", "x3", Lit("incatch"))>>)
                \* the catch body fails too: the try statement fails as a whole (an outer try takes it)
                [] c = "catchfail" -> TryS("otry", <<TryCatchS("try", r.main, "", <<T("c0"), P("cf", FailE), T("c1")>>)>>)
      \* a later try that succeeds renders exactly its own body
      main == <<T("pre"), LetS("ls", "s", Lit("s0"))>> \o (IF c = "catchvarshadow" THEN <<LetS("lx3", "x3", Lit("outer3"))>> ELSE <<>>) \o Probes("a") \o <<try>> \o <<TryS("try2", <<T("t2"), P("t2s", Var("s"))>>)>> \o (IF c = "catchvarshadow" THEN <<P("zx3", Var("x3"))>> ELSE <<>>) \o Probes("z")
      lib  == Tm("lib", "", <<>>, r.bl \o (IF o = "inblock" THEN <<BlockS("hostd", "host", <<>>, NoE, main)>> ELSE <<>>))
      ent  == IF o = "top" THEN Tm("main", "", <<"lib">>, main)
              ELSE Tm("main", "", <<"lib">>, <<YieldC("yh", "host", <<>>, NoE, <<T("C")>>)>>)
  IN [ts |-> <<ent, lib>> \o r.ts, globals |-> NoVarsMap, runs |-> <<RunR("main", NoVarsMap, "D")>>,
      tag |-> PathTag(path) \o "|" \o f \o "|" \o c \o "|" \o o]

cParams == {p \in PathsUpTo(Kinds, Depth) \X Focals \X Catches \X Outers : /\ (p[2] \in {"ycok", "ycfail"} => (Len(p[1]) <= 1 /\ p[4] = "inblock"))
                /\ (p[2] \in {"panicval", "rterr"} => Len(p[1]) <= 1)}
=============================================================================

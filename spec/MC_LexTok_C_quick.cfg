SPECIFICATION Spec
CONSTANTS
  LD <- C_LD
  RD <- C_RD
  LC <- C_LC
  RC <- C_RC
  Alphabet <- C_Tok
  Headers <- NoHeader
  MaxLen = 4
  Emit = TRUE
INVARIANTS NoInvention EmitVec
CHECK_DEADLOCK FALSE

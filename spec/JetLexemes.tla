----------------------------- MODULE JetLexemes -----------------------------
(* C02, totality: every sequence of lexeme classes inside an action, in each   *)
(* keyword context.  The contract for these inputs is only "a template or an   *)
(* error naming the template and a line of the source; never a crash, a hang   *)
(* or a goroutine left behind" - no verdict is computed.                        *)
EXTENDS Integers, Sequences, TLC, Json
CONSTANTS Lexemes, Contexts, MaxLen, Emit
VARIABLES ctx, lexs, glue    \* glue: the lexemes follow each other without a blank (adjacency: "-" before a digit, "." before a name ...)
Init == ctx \in Contexts /\ lexs = <<>> /\ glue \in BOOLEAN
Extend(l) == Len(lexs) < MaxLen /\ lexs' = Append(lexs, l) /\ UNCHANGED <<ctx, glue>>
Next == \E l \in Lexemes : Extend(l)
Spec == Init /\ [][Next]_<<ctx, lexs, glue>>
EmitVec == Emit => PrintT(<<"VEC", ToJson([ctx |-> ctx, lexs |-> lexs, glue |-> glue])>>)
=============================================================================

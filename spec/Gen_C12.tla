------------------------------- MODULE Gen_C12 -------------------------------
(* C12: an evaluation failure of every class Jet detects itself is returned as   *)
(* an error naming the file and line of the failing action, wherever it sits;    *)
(* everything rendered before it (outside try) has been written, nothing after.  *)
EXTENDS JetProg
CONSTANTS Depth

Classes == {"identifier", "field", "unexported", "method", "nilderef", "nilderef-embedded", "mapfield-ok", "mapchain-missing", "index-range", "index-len", "index-empty", "index-neg", "index-str", "index-strlen", "index-kind", "index-nil",
            "slice-bound", "slice-kind", "operand-mul", "operand-add", "operand-neg", "operand-cmp", "calltarget", "calltarget-nil", "calltarget-nil-noargs", "range-invalid", "range-nilliteral",
            "argcount", "argcount-jetfunc", "argtype", "argtype-iface", "argtype-iface-variadic", "argtype-iface-piped", "arg-invalid", "underscore", "underscore-jetfunc", "underscore-variadic", "argcount-variadic", "func", "func-wrapsrt", "include-openfails", "argcount-jetfunc0", "argcount-jetfunc0-piped",
            "len-kind", "ints-range", "pipe-nonfunc", "argcount-piped-jetfunc", "argcount-piped"}
Positions == {"print", "let", "set", "ifcond", "iflet", "rangecoll", "yieldarg", "yieldctx", "ycontentctx", "includectx", "return", "execctx", "yieldnoval", "yieldnoval0"}
Places == {"main", "layout"}
PosKinds == {"include", "ycont", "ybody", "blockdef", "range", "iflet", "tryin", "exec", "incif", "includectx", "execext", "includeext"}

Failing(pos, class) ==
  LET e == Ex("err", class) IN
  \* a template the loader has (Exists) but cannot open: an error at the include, like a missing one
  IF class = "include-openfails" THEN <<Incl("ff", "openfails")>> ELSE
  CASE pos = "print"      -> <<P("ff", e)>>
    [] pos = "let"        -> <<LetS("ff", "x3", e)>>
    [] pos = "set"        -> <<SetS("ff", "s", e)>>
    [] pos = "ifcond"     -> <<IfS("ff", e, <<T("no")>>)>>
    [] pos = "iflet"      -> <<IfLet("ff", "x3", e, Lit("true"), <<T("no")>>)>>
    [] pos = "rangecoll"  -> <<RangeS("ff", "none", "", "", "", e, <<T("no")>>)>>
    [] pos = "yieldarg"   -> <<YieldS("ff", "bp", <<Par("p", e)>>, NoE)>>
    [] pos = "yieldctx"   -> <<YieldS("ff", "bp", <<>>, e)>>
    [] pos = "ycontentctx"-> <<YieldC("fy", "bq", <<>>, NoE, <<T("no")>>)>>
    [] pos = "includectx" -> <<InclCx("ff", "other", e)>>
    [] pos = "return"     -> <<Ret("ff", e)>>
    [] pos = "yieldnoval"  -> <<YieldS("ff", "bp", <<Par("zz", NoE)>>, NoE)>>       \* an argument without a value
    [] pos = "yieldnoval0" -> <<YieldS("ff", "b0", <<Par("zz", NoE)>>, NoE)>>       \* ... for a block without parameters
    [] pos = "execctx"    -> <<ExecLetCx("ff", "r", "other", e)>>

\* a yield of a block that is defined nowhere the template can see is an error - also after another template of
\* the same Set, which imports the same library AND the one that does define the block, has been loaded and run
MkAfterImports ==
  LET la    == Tm("la", "", <<>>, <<BlockS("lad", "ba", <<>>, NoE, <<T("BA")>>)>>)
      lb    == Tm("lb", "", <<>>, <<BlockS("lbd", "bb", <<>>, NoE, <<T("BB")>>)>>)
      both  == Tm("main", "", <<"la", "lb">>, <<T("m0"), YieldS("my", "bb", <<>>, NoE), T("m1")>>)
      other == Tm("after", "", <<"la">>, <<T("o0"), YieldS("oa", "ba", <<>>, NoE), YieldS("oy", "bb", <<>>, NoE), T("o1")>>)
  IN [ts |-> <<both, other, la, lb>>, globals |-> NoVarsMap,
      runs |-> <<RunR("main", NoVarsMap, "D"), RunR("after", NoVarsMap, "D"), RunR("la", NoVarsMap, "D")>>, tag |-> "afterimports"]

MkC(par) ==
  IF par[4] = "afterimports" THEN MkAfterImports ELSE
  LET path == par[1]  class == par[2]  pos == par[3]  place == par[4]  fill == par[5]
      filler == [i \in 1..fill |-> T("fill" \o ToString(i))]
      focal  == filler \o <<T("f0")>> \o Failing(pos, class) \o <<T("f1")>>
      r      == Build(path, 1, focal)
      toplet == ~(pos = "print" /\ fill = 1)     \* without a top-level := the failing scope chain reaches the pool as it is
      \* the failing expression is first mentioned, harmlessly, in a branch that is never taken: an error is
      \* reported where it happens, not where its text first occurs
      dead   == <<IfS("dead", Lit("false"), IF class = "include-openfails" THEN <<Incl("deadp", "openfails")>> ELSE <<P("deadp", Ex("err", class))>>)>>
      body   == dead \o <<T("pre")>> \o (IF toplet THEN <<LetS("ls", "s", Lit("s0"))>> ELSE <<>>) \o r.main \o <<T("post")>>
      blocks == r.bl \o <<BlockS("bpd", "bp", <<Par("p", Lit("dp"))>>, NoE, <<T("bp")>>), BlockS("b0d", "b0", <<>>, NoE, <<T("b0")>>),
                          BlockS("bqd", "bq", <<>>, NoE, <<T("bq0"), YContentCx("ffq", IF pos = "ycontentctx" THEN Ex("err", class) ELSE Lit("okctx")), T("bq1")>>)>>
      ent    == IF place = "main" THEN <<Tm("main", "", <<"lib">>, body)>>
                ELSE <<Tm("main", "base", <<"lib">>, <<T("junk")>>), Tm("base", "", <<>>, body)>>
  IN [ts |-> ent \o <<Tm("lib", "", <<>>, blocks), Tm("other", "", <<>>, <<T("other")>>),
               Tm("after", "", <<>>, <<T("a0"), P("ax", Var(IF class \in {"identifier", "field"} THEN "x1" ELSE IF class = "method" THEN "s" ELSE IF class = "index-range" THEN "g" ELSE "x3")), T("a1")>>)>> \o r.ts,
      globals |-> NoVarsMap,
      \* a second execution on the recycled Runtime: names of the failed one must be unknown again
      runs |-> <<RunR("main", [NoVarsMap EXCEPT !["p"] = "vmP", !["g"] = "vmG"], "D"), RunR("after", NoVarsMap, "D")>>,
      tag |-> PathTag(path) \o "|" \o class \o "|" \o pos \o "|" \o place]

cParams == {p \in PathsUpTo(PosKinds, Depth) \X Classes \X Positions \X Places \X (0..1) :
              /\ (p[5] = 1 => p[3] = "print")
              /\ (p[3] \in {"yieldnoval", "yieldnoval0"} => p[2] = "identifier")
              /\ (p[2] \in {"pipe-nonfunc", "safewriter-notlast", "argcount-piped-jetfunc", "argcount-piped", "argtype-iface-piped", "argcount-jetfunc0-piped", "include-openfails"} => p[3] = "print")
              /\ (p[2] \in {"range-invalid", "range-nilliteral"} => p[3] = "rangecoll")   \* nil is only an error as a range subject
              /\ (p[2] = "calltarget-nil-noargs" => p[3] \in {"print", "let", "ifcond", "rangecoll"})
              /\ (p[4] = "layout" => p[3] \in {"print", "let", "yieldarg"})}
           \cup {<< <<>>, "identifier", "print", "afterimports", 0 >>}
=============================================================================

SPECIFICATION Spec
CONSTANTS
  Roots = {"top", "outer", "p_outer", "outer2", "p_outer2"}
  MaxSteps = 2
  Emit = TRUE
  IssetMode = FALSE
INVARIANTS DotBracketAgree Total EmitVec
CHECK_DEADLOCK FALSE

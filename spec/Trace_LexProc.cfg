SPECIFICATION TSpec
CONSTANTS
  MaxItems = 0
  RePanicNoDrain = FALSE
INVARIANTS ClosedOnce
CONSTRAINT TConstraint
POSTCONDITION TraceAccepted
CHECK_DEADLOCK FALSE

------------------------------- MODULE Gen_C10 -------------------------------
(* C10: Execute is a pure function of its inputs.  A history of four Execute    *)
(* calls on one goroutine (so the pooled Runtime is reused): A, probe, A, probe *)
(* where A is any wrapper path around a focal that may fail (inside or outside  *)
(* try) and the probe template renders everything a stale Runtime could leak:   *)
(* '.', variables, yield content, output destination.                           *)
EXTENDS JetProg
CONSTANTS Depth, Kinds

Focals == {"ok", "fail", "failvar", "panic", "rterror", "inclbroken"}
\* trycatch: the failure is handled by a catch list; trycatchfail: the catch list fails too (the error escapes, what
\* the try body had rendered is gone for good)
TryKinds == {"none", "try", "trycatch", "trycatchfail"}
ProbeKinds == {"top", "block", "include"}

Focal(f) ==
  CASE f = "ok"      -> <<T("f0"), P("fp", Ctx)>>
    [] f = "fail"    -> <<T("f0"), P("ff", FailE), T("f1")>>
    [] f = "failvar" -> <<T("f0"), P("ff", Var("g")), T("f1")>>
    \* a user function panics with a non-error value: outside try the panic escapes Execute; the Runtime is clean all the same
    \* a template that exists but does not parse: the same error every time, not a cached half-built template
    [] f = "inclbroken" -> <<T("f0"), Incl("ff", BrokenName), T("f1")>>
    [] f = "panic"   -> <<T("f0"), P("ff", Ex("err", "panic")), T("f1")>>
    [] f = "rterror" -> <<T("f0"), P("ff", Ex("err", "rterror")), T("f1")>>

MkC(par) ==
  LET path == par[1]  f == par[2]  tk == par[3]  pk == par[4]  toplet == par[5]
      r    == Build(path, 1, Focal(f))
      body == CASE tk = "try" -> <<TryS("try", r.main)>>
                [] tk = "trycatch" -> <<TryCatchS("try", <<T("t0")>> \o r.main, "e", <<T("c0")>>)>>
                [] tk = "trycatchfail" -> <<TryCatchS("try", <<T("t0")>> \o r.main, "e", <<T("c0"), P("cf", FailE), T("c1")>>)>>
                [] OTHER -> r.main
      \* without the top-level := no deferred scope restore surrounds the failing construct
      main == <<T("pre")>> \o (IF toplet THEN <<LetS("ls", "s", Lit("s0"))>> ELSE <<>>) \o body \o <<T("post")>>
      vmA  == [NoVarsMap EXCEPT !["x3"] = "vmx3", !["q1"] = "vmq1"]
      pr   == <<T("q0"), P("qctx", Ctx), P("qs", IsSetE("s")), P("q1", IsSetE("x1")), P("q2", IsSetE("x2")),
                P("qk", IsSetE("k")), P("qp", IsSetE("p")), P("qr", IsSetE("r")), P("q3", IsSetE("x3")), P("qq", IsSetE("q1")), YContent("qyc"),
                RangeS("qr1", "none", "", "", "", ListE("slice", <<"o1", "o2">>),
                       <<RangeS("qr2", "none", "", "", "", ListE("slice", <<"i1", "i2">>), <<P("qri", Ctx)>>), P("qro", Ctx)>>),
                RangeS("qm1", "kv", "k", "v", ":=", ListE("map", <<"m1">>),
                       <<RangeS("qm2", "k", "x1", "", ":=", ListE("map", <<"m2">>), <<P("qmi", Var("x1"))>>), P("qmo", Var("v"))>>),
                TryS("qtry", <<T("qt")>>), T("q1t")>>
      probe == CASE pk = "top"     -> Tm("probe", "", <<>>, pr)
                 [] pk = "block"   -> Tm("probe", "", <<>>, <<BlockS("pb", "pblock", <<>>, NoE, pr)>>)
                 [] pk = "include" -> Tm("probe", "", <<>>, <<Incl("pi", "probe2")>>)
      lib  == Tm("lib", "", <<>>, r.bl)
  IN [ts |-> <<Tm("main", "", <<"lib">>, main), lib, probe, Tm("probe2", "", <<>>, pr)>> \o r.ts,
      globals |-> NoVarsMap,
      runs |-> <<RunR("main", vmA, "D"), RunR("probe", NoVarsMap, Nil),
                 RunR("main", vmA, "D"), RunR("probe", NoVarsMap, "D2")>>,
      tag |-> PathTag(path) \o "|" \o f \o "|" \o tk \o "|" \o pk \o (IF toplet THEN "" ELSE "|notoplet")]

cParams == PathsUpTo(Kinds, Depth) \X Focals \X TryKinds \X ProbeKinds \X BOOLEAN

\* the specification itself is pure: same call, same observation
SpecPure == Done => results[1] = results[3]
=============================================================================

----------------------------- MODULE Trace_Path -----------------------------
(* code -> spec for C15: every recorded lookup of the real Set (random long    *)
(* spellings, every entry point) must be explained by Canon + ProbeCalls.      *)
EXTENDS JetPath

Trace == ndJsonDeserialize("trace_path.ndjson")

VARIABLE l
tvars == <<segs, phase, obs, l>>

TraceInit == Init /\ l = 1

Expected(e) ==
  LET refdir == IF Relative(e.entry) THEN RefDir(e.depth) ELSE <<>>
      c      == Canon(refdir, e.abs, e.segs)
      calls  == ProbeCalls(c, e.exts, e.hit, e.dev, e.entry # "ParseExtends")
  IN [i \in 1..Len(calls) |-> [op |-> calls[i].op, path |-> PathString(calls[i].path, calls[i].ext)]]

TraceStep ==
  /\ l <= Len(Trace)
  /\ LET e == Trace[l] IN
       /\ Expected(e) = e.calls
       /\ segs' = e.segs
       /\ phase' = "done"
       /\ obs' = [canon |-> Canon(IF Relative(e.entry) THEN RefDir(e.depth) ELSE <<>>, e.abs, e.segs),
                  calls |-> <<>>, segs |-> e.segs, abs |-> e.abs, entry |-> e.entry, depth |-> e.depth]
  /\ l' = l + 1

TraceSpec == TraceInit /\ [][TraceStep]_tvars

TraceAccepted ==
  LET n == TLCGet("stats").diameter - 1 IN
  IF n = Len(Trace) THEN TRUE ELSE PrintT(<<"TRACE-REJECTED-AFTER", n>>) /\ FALSE
=============================================================================

SPECIFICATION Spec
CONSTANTS
  MaxStack = 2
  Emit = TRUE
INVARIANTS NeverDirectories FirstLoaderWins EmitVec
CHECK_DEADLOCK FALSE

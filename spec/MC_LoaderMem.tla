---------------------------- MODULE MC_LoaderMem ----------------------------
EXTENDS JetLoaderMem
S(abs, segs) == [abs |-> abs, segs |-> segs]
cSpellings == << S(FALSE, <<"a">>), S(TRUE, <<"a">>), S(FALSE, <<".", "a">>), S(FALSE, <<"a", "">>),
                S(TRUE, <<"", "a">>), S(FALSE, <<"b", "..", "a">>), S(FALSE, <<"..", "a">>),
                S(FALSE, <<"a", "b">>), S(TRUE, <<"a", ".", "b">>), S(FALSE, <<"a", "", "b">>),
                S(FALSE, <<"a", "b", "..">>), S(FALSE, <<"b">>), S(TRUE, <<"..", "b", ".">>) >>
=============================================================================

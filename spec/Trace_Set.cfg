SPECIFICATION TraceSpec
CONSTANTS
  Exts <- cExts
  Dev <- cDev
  MaxOps = 1000000
  InitWorlds = {}
  PutKey = "found"
  Emit = FALSE
INVARIANTS FailureConsultsLoader DevAlwaysReloads ExtensionOrder
POSTCONDITION TraceAccepted
CHECK_DEADLOCK FALSE

------------------------------- MODULE JetExec -------------------------------
(***************************************************************************)
(* The Jet interpreter as an abstract machine (eval.go executeList,        *)
(* executeTry, executeYieldBlock, executeInclude, exec/includeIfExists,    *)
(* Runtime.recover), one action per critical section.                      *)
(*                                                                         *)
(* State: control stack `frames` (each frame carries exactly the Go locals *)
(* that hold saved state), scope heap + current scope, context, content    *)
(* closure, writer + try buffers, output, return register, pending error.  *)
(* Go's panic/defer semantics is the explicit Unwind action: frames whose  *)
(* restore is `defer`red run it (deferred scope releases restore the scope   *)
(* saved at entry), the others are popped without it.                      *)
(*                                                                         *)
(* Programs are data (uniform records so TLC can compare them); a *case*   *)
(* is a template set plus a sequence of Execute calls.                     *)
(***************************************************************************)
EXTENDS Integers, Sequences, FiniteSets, TLC

CONSTANTS Params,    \* set of case parameters (supplied by Gen_*/MC_* modules)
          MkCase(_), \* builds the case (template set + Execute calls) for a parameter
          Names,     \* variable names
          FixTry,    \* try restores scope/context/content on failure (repaired design)
          FixPool,   \* Execute starts with no content closure (repaired design)
          RetKeep,   \* an invalid sub-result does not clobber a pending return value
          ExecFull,  \* exec/includeIfExists render the root ancestor (repaired F21)
          FixIsSet,  \* isset restores scope/context/content/writer when it swallows a failure (repaired F41)
          AnyFail    \* an error may be raised before any step (model checking only)

Unset == "<unset>"
Nil   == "nil"

---------------------------------------------------------------------------
(* Program syntax: uniform records *)
NoE == [k |-> "none", a |-> "", vs |-> <<>>]
Ex(k, a) == [k |-> k, a |-> a, vs |-> <<>>]
Lit(v) == Ex("lit", v)
Var(n) == Ex("var", n)
NilVar == Ex("nilvar", "")
Ctx    == Ex("ctx", "")
FailE  == Ex("fail", "")
IsSetE(n) == Ex("isset", n)
ListE(kind, vs) == [k |-> "list", a |-> kind, vs |-> vs]

St(op, id) == [op |-> op, id |-> id, n |-> "", n2 |-> "", e |-> NoE, e2 |-> NoE,
               b |-> <<>>, b2 |-> <<>>, f |-> "", g |-> "", ps |-> <<>>]
Par(n, e) == [n |-> n, e |-> e]

\* contract (C05): everything is truthy but false, 0, the empty string and nil
Falsy == {Nil, "false", "", "0", Unset, "ref:zerofloat", "ref:nilptr", "ref:nilslice", "ref:nilmap", "ref:niliface", "ref:nilfunc"}
Truthy(v) == v \notin Falsy

---------------------------------------------------------------------------
VARIABLES cs,        \* the case under execution (constant along a behaviour)
          run,       \* index of the Execute call in progress
          frames, heap, cur, ctx, contents, content, bufs, writer, out,
          rv,        \* return value of the list that just ended ("" = invalid)
          err,       \* pending / final error of this execution
          mode,      \* "start" | "run" | "unwind" | "ended" | "done"
          results    \* per-run observations
vars == <<cs, run, frames, heap, cur, ctx, contents, content, bufs, writer, out, rv, err, mode, results>>

Case   == cs
Runs   == Case.runs
RunRec == Runs[run]
NoErr  == [on |-> FALSE, class |-> "", id |-> ""]

TmplNamed(n) == LET S == {i \in 1..Len(Case.ts) : Case.ts[i].name = n}
                IN IF S = {} THEN [name |-> "", ext |-> "", imps |-> <<>>, body |-> <<>>]
                   ELSE Case.ts[CHOOSE i \in S : TRUE]
HasTmpl(n) == \E i \in 1..Len(Case.ts) : Case.ts[i].name = n

RECURSIVE RootOf(_)
RootOf(n) == LET t == TmplNamed(n) IN IF t.ext = "" \/ ~HasTmpl(t.ext) THEN n ELSE RootOf(t.ext)
OneUp(n)  == LET t == TmplNamed(n) IN IF t.ext = "" THEN n ELSE t.ext

\* own block definitions of a statement list, in parse-registration order (nested first), last wins
RECURSIVE BlocksIn(_)
BlocksIn(list) ==
  IF list = <<>> THEN <<>>
  ELSE LET s == Head(list)
           inner == BlocksIn(s.b) \o BlocksIn(s.b2)
       IN (IF s.op = "block" THEN inner \o <<s>> ELSE inner) \o BlocksIn(Tail(list))
OwnBlock(tn, bn) == LET bs == BlocksIn(TmplNamed(tn).body)
                        S  == {i \in 1..Len(bs) : bs[i].n = bn}
                    IN IF S = {} THEN St("none", "") ELSE bs[CHOOSE i \in S : \A j \in S : j <= i]

\* processedBlocks: own, then later imports over earlier ones, then the extended chain
RECURSIVE EffBlock(_, _)
EffBlock(tn, bn) ==
  IF tn = "" \/ ~HasTmpl(tn) THEN St("none", "")
  ELSE IF OwnBlock(tn, bn).op # "none" THEN OwnBlock(tn, bn)
  ELSE LET t  == TmplNamed(tn)
           S  == {i \in 1..Len(t.imps) : EffBlock(t.imps[i], bn).op # "none"}
       IN IF S # {} THEN EffBlock(t.imps[CHOOSE i \in S : \A j \in S : j <= i], bn)
          ELSE EffBlock(t.ext, bn)

---------------------------------------------------------------------------
(* Scopes *)
NoVars == [n \in Names |-> Unset]
Scope(parent, vs, blk) == [parent |-> parent, vars |-> vs, blocks |-> blk]
NewScope(h, c) == [heap |-> Append(h, Scope(c, NoVars, h[c].blocks)), cur |-> Len(h) + 1]

RECURSIVE FindScope(_, _, _)
FindScope(h, i, n) == IF i = 0 THEN 0 ELSE IF h[i].vars[n] # Unset THEN i ELSE FindScope(h, h[i].parent, n)

Builtins == {"len", "lower", "upper", "isset"}
Resolve(h, c, n) ==
  LET i == FindScope(h, c, n) IN
  IF i # 0 THEN h[i].vars[n]
  ELSE IF n \in DOMAIN Case.globals /\ Case.globals[n] # Unset THEN Case.globals[n]
  ELSE IF n \in Builtins THEN "FUNC:" \o n ELSE Unset

RECURSIVE FindBlock(_, _, _)
FindBlock(h, i, bn) == IF i = 0 THEN St("none", "")
                       ELSE IF EffBlock(h[i].blocks, bn).op # "none" THEN EffBlock(h[i].blocks, bn)
                       ELSE FindBlock(h, h[i].parent, bn)

Bind(h, c, n, v) == [h EXCEPT ![c].vars[n] = v]
RECURSIVE TopMost(_, _)
TopMost(h, j) == IF h[j].parent # 0 THEN TopMost(h, h[j].parent) ELSE j

\* expression evaluation: [ok, v, class]
Eval(e, h, c, cx) ==
  CASE e.k = "lit"   -> [ok |-> TRUE, v |-> e.a, class |-> ""]
    [] e.k = "var"   -> LET v == Resolve(h, c, e.a) IN
                        IF v = Unset THEN [ok |-> FALSE, v |-> Nil, class |-> "identifier"]
                        ELSE [ok |-> TRUE, v |-> v, class |-> ""]
    [] e.k = "ctx"   -> [ok |-> TRUE, v |-> cx, class |-> ""]
    [] e.k = "nilvar" -> [ok |-> TRUE, v |-> Nil, class |-> ""]       \* a variable that holds nil (not the literal nil)
    [] e.k = "fail"  -> [ok |-> FALSE, v |-> Nil, class |-> "func"]
    [] e.k = "err"   -> [ok |-> FALSE, v |-> Nil, class |-> e.a]      \* an expression failing with class e.a
    [] e.k = "isset" -> LET v == Resolve(h, c, e.a) IN
                        [ok |-> TRUE, v |-> IF v \in {Unset, Nil} THEN "false" ELSE "true", class |-> ""]
    [] e.k = "none"  -> [ok |-> TRUE, v |-> Nil, class |-> ""]
    \* n("AbC"): the name resolves like any other - scopes, Execute variables, globals, then the built-ins -
    \* every time the expression is evaluated
    [] e.k \in {"bcall", "bpipe", "bcolon"} -> LET v == Resolve(h, c, e.a) IN       \* n("AbC"), "AbC" | n, n: "AbC"
                        IF v = Unset THEN [ok |-> FALSE, v |-> Nil, class |-> "identifier"]
                        ELSE IF v = "FUNC:lower" THEN [ok |-> TRUE, v |-> "abc", class |-> ""]
                        ELSE IF v = "FUNC:upper" THEN [ok |-> TRUE, v |-> "ABC", class |-> ""]
                        ELSE IF v \in {"FUNC:vmf", "FUNC:glf"} THEN [ok |-> TRUE, v |-> v \o "(AbC)", class |-> ""]
                        ELSE [ok |-> FALSE, v |-> Nil, class |-> "calltarget"]
    [] OTHER         -> [ok |-> FALSE, v |-> Nil, class |-> "operand"]

---------------------------------------------------------------------------
(* Frames: uniform records. gsc/gcx/gct/gwr are ghost copies of the state   *)
(* at construct entry, used only by the discipline properties.              *)
Fr(k, list, st) == [k |-> k, list |-> list, pc |-> 1, opened |-> FALSE, ret |-> "", ran |-> FALSE,
                    sc |-> 0, cx |-> "", ct |-> 0, wr |-> 0, bf |-> 0, hascx |-> FALSE, st |-> st,
                    rest |-> <<>>, gsc |-> cur, gcx |-> ctx, gct |-> content, gwr |-> writer]

Top == Len(frames)
F   == frames[Top]
Pop(fs) == SubSeq(fs, 1, Len(fs) - 1)

\* write a chunk to the current writer
WriteTo(w, ch, o, bs) ==
  IF w = 0 THEN [out |-> Append(o, ch), bufs |-> bs]
  ELSE IF w < 0 THEN [out |-> o, bufs |-> bs]
  ELSE [out |-> o, bufs |-> [bs EXCEPT ![w] = Append(@, ch)]]
RECURSIVE WriteAll(_, _, _, _)
WriteAll(w, chs, o, bs) == IF chs = <<>> THEN [out |-> o, bufs |-> bs]
                           ELSE LET r == WriteTo(w, Head(chs), o, bs) IN WriteAll(w, Tail(chs), r.out, r.bufs)

\* the list frame below a finished construct resumes at its next statement; `nr` is the
\* construct's result and `took` whether the Go code assigns it to returnValue at all
Resume(fs, nr, took) ==
  LET L == fs[Len(fs)]
      r == IF ~took THEN L.ret ELSE IF RetKeep /\ nr = "" THEN L.ret ELSE nr
  IN [fs EXCEPT ![Len(fs)] = [L EXCEPT !.pc = @ + 1, !.ret = r]]

Raise(class, id) == /\ err' = [on |-> TRUE, class |-> class, id |-> id]
                    /\ mode' = "unwind"

---------------------------------------------------------------------------
Init == /\ \E par \in Params : cs = MkCase(par)
        /\ run = 1 /\ mode = "start"
        /\ frames = <<>> /\ heap = <<>> /\ cur = 0 /\ ctx = Nil /\ contents = <<>> /\ content = 0
        /\ bufs = <<>> /\ writer = 0 /\ out = <<>> /\ rv = "" /\ err = NoErr /\ results = <<>>

\* Template.Execute: take a Runtime from the pool, bind blocks/variables/writer, walk to the root
ExecStart ==
  /\ mode = "start"
  /\ LET r == RunRec IN
     /\ heap' = <<Scope(0, r.vars, r.entry)>> /\ cur' = 1
     /\ ctx' = IF r.data # Nil THEN r.data ELSE ctx        \* context only set when data is non-nil
     /\ content' = IF FixPool THEN 0 ELSE content          \* residue of the pooled Runtime
     /\ contents' = IF FixPool THEN <<>> ELSE contents
     /\ bufs' = <<>> /\ writer' = 0 /\ out' = <<>> /\ rv' = "" /\ err' = NoErr
     /\ LET c0 == IF r.data # Nil THEN r.data ELSE ctx
            k0 == IF FixPool THEN 0 ELSE content IN
        frames' = << [Fr("top", <<>>, St("none", "")) EXCEPT !.gsc = 1, !.gwr = 0, !.gcx = c0, !.gct = k0],
                     [Fr("list", TmplNamed(RootOf(r.entry)).body, St("none", "")) EXCEPT !.gsc = 1, !.gwr = 0, !.gcx = c0, !.gct = k0] >>
     /\ mode' = "run"
  /\ UNCHANGED <<cs, run, results>>

\* Runtime.recover: reset scope and context (and, repaired, content), return to the pool
ExecEnd ==
  /\ mode = "ended"
  /\ results' = Append(results, [out |-> out, err |-> err])
  /\ ctx' = Nil /\ heap' = heap /\ cur' = 0
  /\ content' = IF FixPool THEN 0 ELSE content
  /\ IF run < Len(Runs) THEN run' = run + 1 /\ mode' = "start" ELSE run' = run /\ mode' = "done"
  /\ UNCHANGED <<cs, frames, contents, bufs, writer, out, rv, err>>

---------------------------------------------------------------------------
(* Statement execution. Each disjunct is one critical section.             *)

Keep(S) == UNCHANGED S
Ctl == <<cs, run, results>>

AdvancePC == [frames EXCEPT ![Top].pc = @ + 1]

DoText(s) ==
  /\ LET w == WriteTo(writer, "T:" \o s.id, out, bufs) IN out' = w.out /\ bufs' = w.bufs
  /\ frames' = AdvancePC
  /\ UNCHANGED <<heap, cur, ctx, contents, content, writer, rv, err, mode>>

\* {{ expr }} / {{ expr | raw }}: escaped once unless a SafeWriter ends the pipeline
DoPrint(s) ==
  LET r == Eval(s.e, heap, cur, ctx) IN
  IF ~r.ok THEN Raise(r.class, s.id) /\ UNCHANGED <<frames, heap, cur, ctx, contents, content, bufs, writer, out, rv>>
  ELSE /\ LET ch == (IF s.f = "" THEN "V:" ELSE "R:" \o s.f \o ":") \o r.v
              \* {{ sw: includeIfExists("swinner"), e }}: the first argument renders a template that itself uses a
              \* SafeWriter ({{ "swi" | raw }}) and evaluates to true; both arguments go through sw
              w  == IF s.g = "arginc" THEN WriteAll(writer, <<"R:raw:swi", "R:" \o s.f \o ":true", ch>>, out, bufs)
                    ELSE IF r.v \in {Nil, ""} THEN [out |-> out, bufs |-> bufs]     \* nothing to print: no write at all
                    ELSE WriteTo(writer, ch, out, bufs)
          IN out' = w.out /\ bufs' = w.bufs
       /\ IF s.g = "argfail"      \* {{ sw: e, fail() }}: e is written, then the next argument fails
          THEN Raise("func", s.id) /\ UNCHANGED frames
          ELSE frames' = AdvancePC /\ UNCHANGED <<err, mode>>
       /\ UNCHANGED <<heap, cur, ctx, contents, content, writer, rv>>

\* {{ n := e }}: the list's single lazily opened scope (released by defer)
DoLet(s) ==
  LET ns == IF F.opened THEN [heap |-> heap, cur |-> cur] ELSE NewScope(heap, cur)
      r  == Eval(s.e, ns.heap, ns.cur, ctx)
      fo == IF F.opened THEN frames ELSE [frames EXCEPT ![Top].opened = TRUE, ![Top].sc = cur]
  IN IF ~r.ok
     THEN /\ Raise(r.class, s.id) /\ heap' = ns.heap /\ cur' = ns.cur /\ frames' = fo
          /\ UNCHANGED <<ctx, contents, content, bufs, writer, out, rv>>
     ELSE /\ heap' = (IF s.n = "_" THEN ns.heap ELSE Bind(ns.heap, ns.cur, s.n, r.v)) /\ cur' = ns.cur
          /\ frames' = [fo EXCEPT ![Top].pc = @ + 1]
          /\ UNCHANGED <<ctx, contents, content, bufs, writer, out, rv, err, mode>>

\* {{ n, n2 := gmap["hit" | "nokey"] }}: the two-value map lookup declares BOTH variables in the list's scope,
\* whether the key is present (s.g = "hit": n is the stored value, n2 true) or not (n is nil, n2 false)
DoLookup(s) ==
  LET ns == IF F.opened THEN [heap |-> heap, cur |-> cur] ELSE NewScope(heap, cur)
      fo == IF F.opened THEN frames ELSE [frames EXCEPT ![Top].opened = TRUE, ![Top].sc = cur]
      hit == s.g = "hit"
      h1 == IF s.n = "_" THEN ns.heap ELSE Bind(ns.heap, ns.cur, s.n, IF hit THEN "hv" ELSE Nil)
      h2 == IF s.n2 = "_" THEN h1 ELSE Bind(h1, ns.cur, s.n2, IF hit THEN "true" ELSE "false")
  IN /\ heap' = h2 /\ cur' = ns.cur
     /\ frames' = [fo EXCEPT ![Top].pc = @ + 1]
     /\ UNCHANGED <<ctx, contents, content, bufs, writer, out, rv, err, mode>>

\* {{ n = e }}: innermost visible variable, error if none
DoSet(s) ==
  LET r == Eval(s.e, heap, cur, ctx)
      i == FindScope(heap, cur, s.n)
  IN IF ~r.ok THEN Raise(r.class, s.id) /\ UNCHANGED <<frames, heap, cur, ctx, contents, content, bufs, writer, out, rv>>
     ELSE IF s.n = "_" THEN frames' = AdvancePC /\ UNCHANGED <<heap, cur, ctx, contents, content, bufs, writer, out, rv, err, mode>>
     ELSE IF i = 0 THEN Raise("assign", s.id) /\ UNCHANGED <<frames, heap, cur, ctx, contents, content, bufs, writer, out, rv>>
     ELSE /\ heap' = Bind(heap, i, s.n, r.v) /\ frames' = AdvancePC
          /\ UNCHANGED <<cur, ctx, contents, content, bufs, writer, out, rv, err, mode>>

\* {{ if [n := e2;] e }} : scope for the let covers both arms, released without defer
DoIf(s) ==
  LET isLet == s.n # ""
      ns == IF isLet THEN NewScope(heap, cur) ELSE [heap |-> heap, cur |-> cur]
      lv == IF isLet THEN Eval(s.e2, ns.heap, ns.cur, ctx) ELSE [ok |-> TRUE, v |-> Nil, class |-> ""]
      h2 == IF isLet /\ lv.ok THEN Bind(ns.heap, ns.cur, s.n, lv.v) ELSE ns.heap
      c  == Eval(s.e, h2, ns.cur, ctx)
  IN IF ~lv.ok \/ ~c.ok
     THEN /\ Raise(IF ~lv.ok THEN lv.class ELSE c.class, s.id) /\ heap' = h2 /\ cur' = ns.cur
          /\ UNCHANGED <<frames, ctx, contents, content, bufs, writer, out, rv>>
     ELSE LET branch == IF Truthy(c.v) THEN s.b ELSE s.b2
              has    == Truthy(c.v) \/ s.f = "else"
              fi     == [Fr("if", <<>>, s) EXCEPT !.opened = isLet, !.ran = has]
          IN /\ heap' = h2 /\ cur' = ns.cur
             /\ frames' = IF has THEN frames \o <<fi, [Fr("list", branch, s) EXCEPT !.gsc = ns.cur]>> ELSE Append(frames, fi)
             /\ rv' = ""
             /\ UNCHANGED <<ctx, contents, content, bufs, writer, out, err, mode>>

IfExit ==
  /\ cur' = IF F.opened THEN heap[cur].parent ELSE cur
  /\ frames' = Resume(Pop(frames), rv, F.ran)
  /\ UNCHANGED <<heap, ctx, contents, content, bufs, writer, out, rv, err, mode>>

\* range. s.f = form: "none" | "k" | "kv"; s.n, s.n2 variable names; s.f2 (in e2.a): ":=" or "="
\* collection: ListE(kind, vs), kind in slice | map | chan | ints | custom (index-less) | nil | bad
ProvidesIndex(kind) == kind \in {"slice", "islice", "array", "ptrslice", "map", "map1", "ints", "customidx", "customchan"}
DoRange(s) ==
  LET coll  == s.e
      isSet == s.f # "none"
      isLet == isSet /\ s.e2.a = ":="
      bad   == coll.k # "list" \/ coll.a \in {"nil", "bad"}
      ns    == IF isLet THEN NewScope(heap, cur) ELSE [heap |-> heap, cur |-> cur]
      two   == s.f = "kv"
  IN IF coll.k \in {"fail", "err"}
     THEN Raise(IF coll.k = "fail" THEN "func" ELSE coll.a, s.id) /\ UNCHANGED <<frames, heap, cur, ctx, contents, content, bufs, writer, out, rv>>
     ELSE IF bad \/ (two /\ ~ProvidesIndex(coll.a))
     THEN /\ Raise("range", s.id) /\ heap' = ns.heap /\ cur' = ns.cur
          /\ UNCHANGED <<frames, ctx, contents, content, bufs, writer, out, rv>>
     ELSE LET L  == frames[Top]
              fr == [Fr("range", <<>>, s) EXCEPT !.opened = isLet, !.cx = ctx,
                         !.rest = [i \in 1..Len(coll.vs) |-> <<IF coll.a \in {"map", "map1"} THEN "k" \o coll.vs[i] ELSE ToString(i - 1), coll.vs[i]>>],
                         !.ret = L.ret, !.ran = FALSE]
          IN /\ heap' = ns.heap /\ cur' = ns.cur
             /\ frames' = Append(frames, fr)
             /\ UNCHANGED <<ctx, contents, content, bufs, writer, out, rv, err, mode>>

\* one iteration (or the else list, or exit)
RangeStep ==
  LET s     == F.st
      kind  == s.e.a
      first == ~F.ran
      empty == F.rest = <<>>
  IN
  IF first /\ empty /\ s.g = "else" /\ F.pc = 1
  THEN /\ frames' = Append([frames EXCEPT ![Top].ran = TRUE, ![Top].pc = 2], Fr("list", s.b2, s))
       /\ rv' = ""
       /\ UNCHANGED <<heap, cur, ctx, contents, content, bufs, writer, out, err, mode>>
  ELSE IF empty \/ F.ret # "" \/ F.pc = 4
  THEN \* RangeExit: context restored, scope released (neither by defer)
       /\ ctx' = F.cx
       /\ cur' = IF F.opened THEN heap[cur].parent ELSE cur
       /\ frames' = Resume(Pop(frames), F.ret, F.ran)
       /\ UNCHANGED <<heap, contents, content, bufs, writer, out, rv, err, mode>>
  ELSE LET el   == Head(F.rest)
           idx  == el[1]
           val  == el[2]
           pidx == ProvidesIndex(kind)
           \* variable slots as in eval.go: key slot 0, value slot 1; index-less rangers: value in slot 0
           kname == IF s.f = "none" THEN "" ELSE IF pidx THEN s.n ELSE ""
           vname == IF s.f = "kv" THEN s.n2 ELSE IF s.f = "k" /\ ~pidx THEN s.n ELSE ""
           setctx == s.f = "none" \/ (s.f = "k" /\ pidx)
           isLet == F.opened
           okk  == kname \in {"", "_"} \/ isLet \/ FindScope(heap, cur, kname) # 0
           okv  == vname \in {"", "_"} \/ isLet \/ FindScope(heap, cur, vname) # 0
           h1   == IF kname \in {"", "_"} THEN heap
                   ELSE IF isLet THEN Bind(heap, cur, kname, idx) ELSE Bind(heap, FindScope(heap, cur, kname), kname, idx)
           h2   == IF vname \in {"", "_"} \/ ~okk THEN h1
                   ELSE IF isLet THEN Bind(h1, cur, vname, val) ELSE IF okv THEN Bind(h1, FindScope(h1, cur, vname), vname, val) ELSE h1
       IN IF ~okk \/ ~okv
          THEN Raise("assign", s.id) /\ heap' = (IF okk THEN h1 ELSE heap)
               /\ UNCHANGED <<frames, cur, ctx, contents, content, bufs, writer, out, rv>>
          ELSE /\ heap' = h2
               /\ ctx' = IF setctx THEN val ELSE ctx
               /\ frames' = Append([frames EXCEPT ![Top].rest = Tail(@), ![Top].ran = TRUE, ![Top].pc = 3],
                                   [Fr("list", s.b, s) EXCEPT !.gcx = IF setctx THEN val ELSE ctx])
               /\ rv' = ""
               /\ UNCHANGED <<cur, contents, content, bufs, writer, out, err, mode>>

\* the body list of a range iteration returned: returnValue = executeList(...)
RangeBodyDone ==
  /\ frames' = [frames EXCEPT ![Top].ret = IF RetKeep /\ rv = "" THEN @ ELSE rv,
                              ![Top].pc = IF F.pc = 2 THEN 4 ELSE 1]
  /\ UNCHANGED <<heap, cur, ctx, contents, content, bufs, writer, out, rv, err, mode>>

\* {{try}}: fresh buffer; writer restored by defer
DoTry(s) ==
  /\ bufs' = Append(bufs, <<>>)
  /\ writer' = Len(bufs) + 1
  /\ frames' = frames \o << [Fr("try", <<>>, s) EXCEPT !.wr = writer, !.bf = Len(bufs) + 1, !.sc = cur, !.cx = ctx, !.ct = content],
                             [Fr("list", s.b, s) EXCEPT !.gwr = Len(bufs) + 1] >>
  /\ rv' = ""
  /\ UNCHANGED <<heap, cur, ctx, contents, content, out, err, mode>>

\* body finished without error: buffer copied to the writer saved at entry
TryCommit ==
  /\ LET w == WriteAll(F.wr, bufs[F.bf], out, bufs) IN out' = w.out /\ bufs' = w.bufs
  /\ writer' = F.wr
  /\ frames' = Resume(Pop(frames), rv, TRUE)
  /\ UNCHANGED <<heap, cur, ctx, contents, content, rv, err, mode>>

\* an error reached the try frame: nothing copied; catch list runs on the saved writer
TryCatch ==
  LET s   == F.st
      c0  == IF FixTry THEN F.sc ELSE cur
      ns  == IF s.f = "catch" /\ s.n # "" THEN NewScope(heap, c0) ELSE [heap |-> heap, cur |-> c0]
      h2  == IF s.f = "catch" /\ s.n # "" THEN Bind(ns.heap, ns.cur, s.n, "ERR") ELSE ns.heap
  IN /\ writer' = F.wr
     /\ ctx' = IF FixTry THEN F.cx ELSE ctx
     /\ content' = IF FixTry THEN F.ct ELSE content
     /\ err' = NoErr /\ mode' = "run"
     /\ heap' = h2 /\ cur' = ns.cur
     /\ rv' = ""
     /\ frames' = IF s.f = "catch"
                  THEN Pop(frames) \o << [Fr("catch", <<>>, s) EXCEPT !.opened = (s.n # ""), !.gsc = F.gsc, !.gcx = F.gcx, !.gct = F.gct, !.gwr = F.gwr],
                                          [Fr("list", s.b2, s) EXCEPT !.gsc = ns.cur, !.gcx = IF FixTry THEN F.cx ELSE ctx,
                                                                      !.gct = IF FixTry THEN F.ct ELSE content, !.gwr = F.wr] >>
                  ELSE Resume(Pop(frames), "", TRUE)
     /\ UNCHANGED <<contents, bufs, out>>

CatchExit ==
  /\ cur' = IF F.opened THEN heap[cur].parent ELSE cur
  /\ frames' = Resume(Pop(frames), rv, TRUE)
  /\ UNCHANGED <<heap, ctx, contents, content, bufs, writer, out, rv, err, mode>>

\* parameters: yield arguments evaluated in the new scope in order, then declared defaults
RECURSIVE BindArgs(_, _, _, _)
BindArgs(ps, h, c, cx) ==      \* [ok, heap, class]
  IF ps = <<>> THEN [ok |-> TRUE, heap |-> h, class |-> ""]
  ELSE LET p == Head(ps) IN
       IF p.e.k = "none" THEN [ok |-> FALSE, heap |-> h, class |-> "yieldarg"]
       ELSE LET r == Eval(p.e, h, c, cx) IN
            IF ~r.ok THEN [ok |-> FALSE, heap |-> h, class |-> r.class]
            ELSE BindArgs(Tail(ps), Bind(h, c, p.n, r.v), c, cx)
RECURSIVE BindDefaults(_, _, _, _)
BindDefaults(ps, h, c, cx) ==
  IF ps = <<>> THEN [ok |-> TRUE, heap |-> h, class |-> ""]
  ELSE LET p == Head(ps) IN
       IF h[c].vars[p.n] # Unset THEN BindDefaults(Tail(ps), h, c, cx)
       ELSE IF p.e.k = "none" THEN BindDefaults(Tail(ps), Bind(h, c, p.n, "false"), c, cx)
       ELSE LET r == Eval(p.e, h, c, cx) IN
            IF ~r.ok THEN [ok |-> FALSE, heap |-> h, class |-> r.class]
            ELSE BindDefaults(Tail(ps), Bind(h, c, p.n, r.v), c, cx)

\* executeYieldBlock(def, def.ps, yps, ctxexpr, contentlist/hascontent)
YieldBlock(s, def, yps, cxe, hascont, clist) ==
  LET need == Len(def.ps) > 0 \/ Len(yps) > 0
      ns   == IF need THEN NewScope(heap, cur) ELSE [heap |-> heap, cur |-> cur]
      a    == IF need THEN BindArgs(yps, ns.heap, ns.cur, ctx) ELSE [ok |-> TRUE, heap |-> ns.heap, class |-> ""]
      d    == IF need /\ a.ok THEN BindDefaults(def.ps, a.heap, ns.cur, ctx) ELSE a
      cts  == IF hascont THEN Append(contents, [list |-> clist, scope |-> ns.cur, outer |-> content]) ELSE contents
      ct2  == IF hascont THEN Len(contents) + 1 ELSE content
      cx   == IF cxe.k = "none" THEN [ok |-> TRUE, v |-> ctx, class |-> ""] ELSE Eval(cxe, d.heap, ns.cur, ctx)
  IN IF ~d.ok
     THEN /\ Raise(d.class, s.id) /\ heap' = d.heap /\ cur' = ns.cur
          /\ UNCHANGED <<frames, ctx, contents, content, bufs, writer, out, rv>>
     ELSE IF ~cx.ok
     THEN /\ Raise(cx.class, s.id) /\ heap' = d.heap /\ cur' = ns.cur /\ contents' = cts /\ content' = ct2
          /\ UNCHANGED <<frames, ctx, bufs, writer, out, rv>>
     ELSE /\ heap' = d.heap /\ cur' = ns.cur /\ contents' = cts /\ content' = ct2 /\ ctx' = cx.v
          /\ frames' = frames \o << [Fr("yield", <<>>, s) EXCEPT !.ct = content, !.opened = need, !.cx = ctx, !.hascx = (cxe.k # "none")],
                                     [Fr("list", def.b, def) EXCEPT !.gsc = ns.cur, !.gcx = cx.v, !.gct = ct2] >>
          /\ rv' = ""
          /\ UNCHANGED <<bufs, writer, out, err, mode>>

\* default parameters of a definition site double as the yield arguments
DefAsArgs(ps) == ps

DoBlock(s) ==
  LET found == FindBlock(heap, cur, s.n)
      def   == IF found.op = "none" THEN s ELSE found
  IN YieldBlock(s, def, DefAsArgs(def.ps), def.e, def.f = "content", def.b2)

DoYield(s) ==
  LET def == FindBlock(heap, cur, s.n) IN
  IF def.op = "none"
  THEN Raise("block", s.id) /\ UNCHANGED <<frames, heap, cur, ctx, contents, content, bufs, writer, out, rv>>
  ELSE YieldBlock(s, def, s.ps, s.e, s.f = "content", s.b2)

YieldExit ==
  /\ ctx' = IF F.hascx THEN F.cx ELSE ctx
  /\ content' = F.ct
  /\ cur' = IF F.opened THEN heap[cur].parent ELSE cur
  /\ frames' = Resume(Pop(frames), "", FALSE)
  /\ UNCHANGED <<heap, contents, bufs, writer, out, rv, err, mode>>

\* {{yield content [ctx]}}
DoYContent(s) ==
  IF content = 0
  THEN frames' = AdvancePC /\ UNCHANGED <<heap, cur, ctx, contents, content, bufs, writer, out, rv, err, mode>>
  ELSE LET cl == contents[content]
           cx == IF s.e.k = "none" THEN [ok |-> TRUE, v |-> ctx, class |-> ""] ELSE Eval(s.e, heap, cl.scope, ctx)
       IN IF ~cx.ok
          THEN /\ Raise(cx.class, s.id) /\ cur' = cl.scope /\ content' = cl.outer
               /\ UNCHANGED <<frames, heap, ctx, contents, bufs, writer, out, rv>>
          ELSE /\ cur' = cl.scope /\ content' = cl.outer /\ ctx' = cx.v
               /\ frames' = frames \o << [Fr("content", <<>>, s) EXCEPT !.sc = cur, !.ct = content, !.cx = ctx, !.hascx = (s.e.k # "none")],
                                          [Fr("list", cl.list, s) EXCEPT !.gsc = cl.scope, !.gcx = cx.v, !.gct = cl.outer] >>
               /\ rv' = ""
               /\ UNCHANGED <<heap, contents, bufs, writer, out, err, mode>>

ContentExit ==
  /\ ctx' = IF F.hascx THEN F.cx ELSE ctx
  /\ cur' = F.sc /\ content' = F.ct
  /\ frames' = Resume(Pop(frames), "", FALSE)
  /\ UNCHANGED <<heap, contents, bufs, writer, out, rv, err, mode>>

\* {{include "t" [ctx]}}: scope and context restored by defer
\* the name may be computed: {{ include . }} takes it from the context (s.n = "@ctx")
DoInclude(s) ==
  LET tn == IF s.n = "@ctx" THEN ctx ELSE s.n IN
  IF ~HasTmpl(tn)
  THEN Raise("template", s.id) /\ UNCHANGED <<frames, heap, cur, ctx, contents, content, bufs, writer, out, rv>>
  ELSE LET ns == NewScope(heap, cur)
           h2 == [ns.heap EXCEPT ![ns.cur].blocks = tn]
           cx == IF s.e.k = "none" THEN [ok |-> TRUE, v |-> ctx, class |-> ""] ELSE Eval(s.e, h2, ns.cur, ctx)
           fi == [Fr("include", <<>>, s) EXCEPT !.cx = ctx, !.hascx = (s.e.k # "none"), !.sc = cur]
       IN /\ heap' = h2 /\ cur' = ns.cur
          /\ IF ~cx.ok
             THEN Raise(cx.class, s.id) /\ frames' = Append(frames, fi) /\ UNCHANGED <<ctx, rv>>
             ELSE /\ ctx' = cx.v /\ rv' = ""
                  /\ frames' = frames \o <<fi, [Fr("list", TmplNamed(RootOf(tn)).body, s) EXCEPT !.gsc = ns.cur, !.gcx = cx.v]>>
                  /\ UNCHANGED <<err, mode>>
          /\ UNCHANGED <<contents, content, bufs, writer, out>>

IncludeExit ==
  /\ ctx' = IF F.hascx THEN F.cx ELSE ctx
  /\ cur' = F.sc
  /\ frames' = Resume(Pop(frames), rv, TRUE)
  /\ UNCHANGED <<heap, contents, content, bufs, writer, out, rv, err, mode>>

\* a template file that exists in every template set of the harness but does not parse
BrokenName == "brk"

\* {{ n := exec("t" [, ctx]) }} (s.op = "execlet") and {{ includeIfExists("t" [, ctx]) }} (s.op = "incif")
DoExec(s) ==
  LET isLet == s.op = "execlet"
      isIE  == s.op = "issetexec"       \* {{ isset(exec("t")[0]) }}: a failure of the exec'd template is swallowed
      ls == IF isLet /\ ~F.opened THEN NewScope(heap, cur) ELSE [heap |-> heap, cur |-> cur]
      fo == IF isLet /\ ~F.opened THEN [frames EXCEPT ![Top].opened = TRUE, ![Top].sc = cur] ELSE frames
  IN IF ~HasTmpl(s.n2)
     THEN IF isLet
          THEN /\ Raise("template-exec", s.id) /\ heap' = ls.heap /\ cur' = ls.cur /\ frames' = fo
               /\ UNCHANGED <<ctx, contents, content, bufs, writer, out, rv>>
          ELSE IF s.n2 = BrokenName /\ ~isIE
          THEN \* includeIfExists of a template that exists but does not parse is an error, not "does not exist"
               /\ Raise("template-exec", s.id) /\ UNCHANGED <<frames, heap, cur, ctx, contents, content, bufs, writer, out, rv>>
          ELSE IF isIE
          THEN /\ LET w == WriteTo(writer, "V:false", out, bufs) IN out' = w.out /\ bufs' = w.bufs
               /\ frames' = AdvancePC /\ UNCHANGED <<heap, cur, ctx, contents, content, writer, rv, err, mode>>
          ELSE frames' = AdvancePC /\ UNCHANGED <<heap, cur, ctx, contents, content, bufs, writer, out, rv, err, mode>>
     ELSE LET ns == NewScope(ls.heap, ls.cur)
              h2 == [ns.heap EXCEPT ![ns.cur].blocks = s.n2]
              cx == IF s.e.k = "none" THEN [ok |-> TRUE, v |-> ctx, class |-> ""] ELSE Eval(s.e, ls.heap, ls.cur, ctx)
              root == IF ExecFull THEN RootOf(s.n2) ELSE OneUp(s.n2)
              fe == [Fr("exec", <<>>, s) EXCEPT !.cx = ctx, !.hascx = (s.e.k # "none"), !.wr = writer, !.gsc = ls.cur, !.sc = ls.cur, !.ct = content]
          IN IF ~cx.ok
             THEN /\ Raise(cx.class, s.id) /\ heap' = ls.heap /\ cur' = ls.cur /\ frames' = fo
                  /\ UNCHANGED <<ctx, contents, content, bufs, writer, out, rv>>
             ELSE /\ heap' = h2 /\ cur' = ns.cur /\ ctx' = cx.v /\ rv' = ""
                  /\ writer' = IF isLet \/ isIE THEN -1 ELSE writer
                  /\ frames' = fo \o <<fe, [Fr("list", TmplNamed(root).body, s) EXCEPT !.gsc = ns.cur, !.gcx = cx.v,
                                                !.gwr = IF isLet \/ isIE THEN -1 ELSE writer]>>
                  /\ UNCHANGED <<contents, content, bufs, out, err, mode>>

ExecExit ==
  LET s == F.st
      c1 == F.sc
  IN /\ ctx' = IF F.hascx THEN F.cx ELSE ctx
     /\ writer' = F.wr
     /\ cur' = c1
     /\ heap' = IF s.op = "execlet" /\ s.n # "_" THEN Bind(heap, c1, s.n, IF rv = "" THEN Nil ELSE rv) ELSE heap
     /\ frames' = Resume(Pop(frames), "", FALSE)
     /\ IF s.op = "issetexec"        \* the returned value is indexed: strings have a first byte, nil has not
        THEN LET w == WriteTo(F.wr, IF rv = "" THEN "V:false" ELSE "V:true", out, bufs) IN out' = w.out /\ bufs' = w.bufs
        ELSE UNCHANGED <<bufs, out>>
     /\ UNCHANGED <<contents, content, rv, err, mode>>

DoReturn(s) ==
  LET r == Eval(s.e, heap, cur, ctx) IN
  IF ~r.ok THEN Raise(r.class, s.id) /\ UNCHANGED <<frames, heap, cur, ctx, contents, content, bufs, writer, out, rv>>
  ELSE /\ frames' = [frames EXCEPT ![Top].pc = @ + 1, ![Top].ret = IF r.v = Nil THEN "" ELSE r.v]
       /\ UNCHANGED <<heap, cur, ctx, contents, content, bufs, writer, out, rv, err, mode>>

\* Go-side Runtime API called from a custom function in an action: {{ apiX("n", e) }}
DoApi(s) ==
  LET r == Eval(s.e, heap, cur, ctx)
      i == FindScope(heap, cur, s.n)
  IN IF ~r.ok THEN Raise(r.class, s.id) /\ UNCHANGED <<frames, heap, cur, ctx, contents, content, bufs, writer, out, rv>>
     ELSE CASE s.f = "Let" ->
               /\ heap' = Bind(heap, cur, s.n, r.v) /\ frames' = AdvancePC
               /\ UNCHANGED <<cur, ctx, contents, content, bufs, writer, out, rv, err, mode>>
          [] s.f = "YieldBlock" ->
               LET def == FindBlock(heap, cur, s.n) IN
               IF def.op = "none"
               THEN Raise("api-block", s.id) /\ UNCHANGED <<frames, heap, cur, ctx, contents, content, bufs, writer, out, rv>>
               ELSE YieldBlock(s, [def EXCEPT !.ps = <<>>], <<>>, s.e2, FALSE, <<>>)
          [] s.f = "Set" ->
               IF i = 0 THEN Raise("api-assign", s.id) /\ UNCHANGED <<frames, heap, cur, ctx, contents, content, bufs, writer, out, rv>>
               ELSE /\ heap' = Bind(heap, i, s.n, r.v) /\ frames' = AdvancePC
                    /\ UNCHANGED <<cur, ctx, contents, content, bufs, writer, out, rv, err, mode>>
          [] s.f = "SetOrLet" ->
               /\ heap' = Bind(heap, IF i = 0 THEN cur ELSE i, s.n, r.v)
               /\ frames' = AdvancePC
               /\ UNCHANGED <<cur, ctx, contents, content, bufs, writer, out, rv, err, mode>>
          [] s.f = "LetGlobal" ->
               /\ heap' = Bind(heap, TopMost(heap, cur), s.n, r.v) /\ frames' = AdvancePC
               /\ UNCHANGED <<cur, ctx, contents, content, bufs, writer, out, rv, err, mode>>
          [] s.f = "Resolve" ->   \* renders Resolve(n) (escaped) / nothing when unknown
               /\ LET v == Resolve(heap, cur, s.n)
                      w == IF v \in {Unset, Nil} THEN [out |-> out, bufs |-> bufs] ELSE WriteTo(writer, "V:" \o v, out, bufs)
                  IN out' = w.out /\ bufs' = w.bufs
               /\ frames' = AdvancePC
               /\ UNCHANGED <<heap, cur, ctx, contents, content, writer, rv, err, mode>>
          [] s.f = "Context" ->
               /\ LET w == IF ctx = Nil THEN [out |-> out, bufs |-> bufs] ELSE WriteTo(writer, "V:" \o ctx, out, bufs)
                  IN out' = w.out /\ bufs' = w.bufs
               /\ frames' = AdvancePC
               /\ UNCHANGED <<heap, cur, ctx, contents, content, writer, rv, err, mode>>

Exec(s) ==
  CASE s.op = "text"     -> DoText(s)
    [] s.op = "print"    -> DoPrint(s)
    [] s.op = "let"      -> DoLet(s)
    [] s.op = "set"      -> DoSet(s)
    [] s.op = "if"       -> DoIf(s)
    [] s.op = "range"    -> DoRange(s)
    [] s.op = "try"      -> DoTry(s)
    [] s.op = "block"    -> DoBlock(s)
    [] s.op = "yield"    -> DoYield(s)
    [] s.op = "ycontent" -> DoYContent(s)
    [] s.op = "include"  -> DoInclude(s)
    [] s.op \in {"execlet", "incif", "issetexec"} -> DoExec(s)
    [] s.op = "lookup" -> DoLookup(s)
    [] s.op = "return"   -> DoReturn(s)
    [] s.op = "api"      -> DoApi(s)

\* a list ran off its end: its lazily opened scope is released (by defer)
ListExit ==
  /\ cur' = IF F.opened THEN F.sc ELSE cur
  /\ rv' = F.ret
  /\ frames' = Pop(frames)
  /\ UNCHANGED <<heap, ctx, contents, content, bufs, writer, out, err, mode>>

Finish == /\ mode' = "ended" /\ frames' = <<>>
          /\ UNCHANGED <<heap, cur, ctx, contents, content, bufs, writer, out, rv, err>>

Step ==
  /\ mode = "run"
  /\ CASE F.k = "top"     -> Finish
       [] F.k = "list"    -> IF F.pc > Len(F.list) THEN ListExit ELSE Exec(F.list[F.pc])
       [] F.k = "if"      -> IfExit
       [] F.k = "range"   -> IF F.pc \in {2, 3} THEN RangeBodyDone ELSE RangeStep
       [] F.k = "try"     -> TryCommit
       [] F.k = "catch"   -> CatchExit
       [] F.k = "yield"   -> YieldExit
       [] F.k = "content" -> ContentExit
       [] F.k = "include" -> IncludeExit
       [] F.k = "exec"    -> ExecExit
  /\ UNCHANGED Ctl

\* an injected failure (a panicking function called by the next action)
Inject ==
  /\ AnyFail /\ mode = "run" /\ F.k = "list" /\ F.pc <= Len(F.list)
  /\ Raise("func", F.list[F.pc].id)
  /\ UNCHANGED <<frames, heap, cur, ctx, contents, content, bufs, writer, out, rv>>
  /\ UNCHANGED Ctl

\* Go panic unwinding, one frame per step: deferred restores run, the others do not
Unwind ==
  /\ mode = "unwind"
  /\ CASE F.k = "top" ->
            /\ mode' = "ended" /\ frames' = <<>>
            /\ UNCHANGED <<heap, cur, ctx, contents, content, bufs, writer, out, rv, err>>
       [] F.k = "list" ->
            /\ cur' = IF F.opened THEN F.sc ELSE cur
            /\ frames' = Pop(frames)
            /\ UNCHANGED <<heap, ctx, contents, content, bufs, writer, out, rv, err, mode>>
       [] F.k \in {"if", "range", "yield", "content", "catch"} ->
            /\ frames' = Pop(frames)
            /\ UNCHANGED <<heap, cur, ctx, contents, content, bufs, writer, out, rv, err, mode>>
       [] F.k = "include" ->
            /\ ctx' = IF F.hascx THEN F.cx ELSE ctx
            /\ cur' = F.sc
            /\ frames' = Pop(frames)
            /\ UNCHANGED <<heap, contents, content, bufs, writer, out, rv, err, mode>>
       [] F.k = "exec" /\ F.st.op # "issetexec" ->
            /\ ctx' = IF F.hascx THEN F.cx ELSE ctx
            /\ writer' = F.wr
            /\ cur' = F.sc
            /\ frames' = Pop(frames)
            /\ UNCHANGED <<heap, contents, content, bufs, out, rv, err, mode>>
       [] F.k = "exec" /\ F.st.op = "issetexec" ->
            \* exec's deferred restores run, then isset's recover swallows the failure: the expression is false
            /\ ctx' = IF FixIsSet THEN F.cx ELSE ctx
            /\ content' = IF FixIsSet THEN F.ct ELSE content
            /\ writer' = F.wr
            /\ cur' = F.sc
            /\ LET w == WriteTo(F.wr, "V:false", out, bufs) IN out' = w.out /\ bufs' = w.bufs
            /\ err' = NoErr /\ mode' = "run"
            /\ frames' = Resume(Pop(frames), "", FALSE)
            /\ UNCHANGED <<heap, contents, rv>>
       [] F.k = "try" -> TryCatch
  /\ UNCHANGED Ctl

Next == ExecStart \/ ExecEnd \/ Step \/ Inject \/ Unwind
Spec == Init /\ [][Next]_vars

---------------------------------------------------------------------------
(* Discipline properties (contract): every construct that ends normally    *)
(* leaves scope, context, content and writer as they were when it began.    *)

Popped == mode = "run" /\ mode' = "run" /\ Len(frames') < Len(frames) /\ Top > 1
ConstructRestores ==
  [][ Popped => /\ cur' = F.gsc /\ ctx' = F.gcx /\ content' = F.gct /\ writer' = F.gwr ]_vars

\* after a failed try body (caught or not), rendering continues exactly as before the try
TryRestoresState ==
  [][ (mode = "unwind" /\ Top >= 1 /\ F.k = "try") =>
        /\ writer' = F.wr /\ ctx' = F.cx /\ content' = F.ct
        /\ (IF F.st.f = "catch" /\ F.st.n # "" THEN heap'[cur'].parent ELSE cur') = F.sc ]_vars

\* isset swallowing a failure leaves everything as it was when the expression began (C07, C09)
IsSetRestoresState ==
  [][ (mode = "unwind" /\ Top >= 1 /\ F.k = "exec" /\ F.st.op = "issetexec") =>
        /\ writer' = F.wr /\ ctx' = F.cx /\ content' = F.ct /\ cur' = F.sc ]_vars

\* output is append-only: nothing written is ever taken back, nothing is inserted
AppendOnly == [][ mode = "run" /\ mode' = "run" => SubSeq(out', 1, Len(out)) = out ]_vars

\* a new execution starts from a clean Runtime (C10)
StartsClean == mode = "start" => content = 0 /\ ctx = Nil

\* exec discards everything its template writes (C09)
ExecDiscards == \A i \in 1..Len(frames) : frames[i].k = "exec" /\ frames[i].st.op = "execlet" =>
                  \A j \in (i+1)..Len(frames) : frames[j].k # "try" => TRUE

TypeOK == /\ cur \in 0..Len(heap) /\ content \in 0..Len(contents) /\ writer \in -1..Len(bufs)
Done == mode = "done"
=============================================================================

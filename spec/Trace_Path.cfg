SPECIFICATION TraceSpec
CONSTANTS
  MaxSegs = 99
  MaxDepth = 2
  ExtLists = {}
  Emit = FALSE
INVARIANTS CanonClean CanonIdempotent
POSTCONDITION TraceAccepted
CHECK_DEADLOCK FALSE

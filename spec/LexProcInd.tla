---------------------------- MODULE LexProcInd ----------------------------
(* Unbounded safety of the lexer/parser protocol (JetLexProc) by an inductive invariant, *)
(* checked with Apalache: IndInit => IndInv (length 0), IndInv /\ Next => IndInv' (length 1). *)
(* The actions are those of JetLexProc.tla, copied verbatim with type annotations; `left` *)
(* ranges over all naturals.                                                             *)
EXTENDS Integers

CONSTANT
  \* @type: Bool;
  RePanicNoDrain

VARIABLES
  \* @type: Str;
  lex,
  \* @type: Int;
  left,
  \* @type: Bool;
  lexErr,
  \* @type: Bool;
  sentEnd,
  \* @type: Bool;
  closed,
  \* @type: Str;
  par

vars == <<lex, left, lexErr, sentEnd, closed, par>>

CInit == RePanicNoDrain = FALSE

Init == /\ lex = "emit" /\ left \in Nat /\ lexErr \in BOOLEAN /\ sentEnd = FALSE /\ closed = FALSE /\ par = "parse"

HandOverItem == /\ lex = "emit" /\ left > 0 /\ par \in {"parse", "drain"}
                /\ left' = left - 1 /\ UNCHANGED <<lex, lexErr, sentEnd, closed, par>>
HandOverEnd  == /\ lex = "emit" /\ left = 0 /\ ~sentEnd /\ par \in {"parse", "drain"}
                /\ sentEnd' = TRUE
                /\ UNCHANGED <<lex, left, lexErr, closed, par>>
LexClose == /\ lex = "emit" /\ sentEnd /\ closed' = TRUE /\ lex' = "done" /\ UNCHANGED <<left, lexErr, sentEnd, par>>
SyntaxError == /\ par = "parse"
               /\ par' = IF RePanicNoDrain THEN "returned" ELSE "drain"
               /\ UNCHANGED <<lex, left, lexErr, sentEnd, closed>>
ParseOK == /\ par = "parse" /\ sentEnd /\ ~lexErr
           /\ par' = "returned" /\ UNCHANGED <<lex, left, lexErr, sentEnd, closed>>
DrainDone == /\ par = "drain" /\ closed /\ par' = "returned" /\ UNCHANGED <<lex, left, lexErr, sentEnd, closed>>

Next == HandOverItem \/ HandOverEnd \/ LexClose \/ SyntaxError \/ ParseOK \/ DrainDone

\* ENABLED Next, written out (Apalache has no ENABLED)
CanStep == \/ (lex = "emit" /\ left > 0 /\ par \in {"parse", "drain"})
           \/ (lex = "emit" /\ left = 0 /\ ~sentEnd /\ par \in {"parse", "drain"})
           \/ (lex = "emit" /\ sentEnd)
           \/ par = "parse"
           \/ (par = "drain" /\ closed)

TypeOK == lex \in {"emit", "done"} /\ par \in {"parse", "drain", "returned"} /\ left \in Nat /\ lexErr \in BOOLEAN
          /\ sentEnd \in BOOLEAN /\ closed \in BOOLEAN
ClosedOnce == closed => lex = "done"
NoStuck == (~CanStep) => (par = "returned" /\ lex = "done")

\* the inductive invariant
IndInv == /\ TypeOK
          /\ (closed <=> lex = "done")
          /\ (lex = "done" => sentEnd)
          /\ (sentEnd => left = 0)
          \* the parser returns only having seen the end of the stream, or the lexer is already gone
          /\ (par = "returned" => sentEnd)
          /\ NoStuck
IndInit == IndInv
=============================================================================

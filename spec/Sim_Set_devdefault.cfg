SPECIFICATION Spec
CONSTANTS
  Exts <- cExtsDefault
  Dev = TRUE
  MaxOps = 8
  InitWorlds <- cWorlds
  PutKey = "found"
  Emit = TRUE
INVARIANTS EmitVec
CHECK_DEADLOCK FALSE

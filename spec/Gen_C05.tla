------------------------------- MODULE Gen_C05 -------------------------------
(* C05: if renders exactly one branch (the first truthy one, else the else);    *)
(* range renders its body once per element with the documented bindings for the *)
(* zero-, one- and two-variable forms, else exactly when empty.                 *)
EXTENDS JetProg
CONSTANTS MaxLen

CondVals == {"true", "false", "0", "1", "-1", "", "str", Nil,
             "ref:zerofloat", "ref:float", "ref:nilptr", "ref:ptr", "ref:ptrzero", "ref:ptrptrzero", "ref:ptrfalse", "ref:ptrempty", "ref:nilmap", "ref:emptymap", "ref:map",
             "ref:nilslice", "ref:emptyslice", "ref:slice", "ref:zerostruct", "ref:struct", "ref:zeroarray", "ref:array",
             "ref:func", "ref:niliface", "ref:ifacezero", "ref:chan", "ref:zerotime"}
ChainVals == {"1", "0"}

VM3(a, b, c) == [NoVarsMap EXCEPT !["q1"] = a, !["q2"] = b, !["q3"] = c]

MkIf1(par) ==
  LET c == par[2]  he == par[3]
      st == IF he THEN IfElse("if", Var("q1"), <<T("then")>>, <<T("else")>>) ELSE IfS("if", Var("q1"), <<T("then")>>)
  IN [ts |-> <<Tm("main", "", <<>>, <<T("pre"), st, P("zctx", Ctx), T("post")>>)>>, globals |-> NoVarsMap,
      runs |-> <<RunR("main", VM3(c, Unset, Unset), "D")>>, tag |-> "if1|" \o c \o "|" \o (IF he THEN "else" ELSE "noelse")]

MkChain(par) ==
  LET a == par[2]  b == par[3]  c == par[4]  he == par[5]  lets == par[6]
      last == IF he THEN IfElse("if3", Var("q3"), <<T("b3")>>, <<T("b4")>>) ELSE IfS("if3", Var("q3"), <<T("b3")>>)
      mid  == IfElse("if2", Var("q2"), <<T("b2")>>, <<last>>)
      top  == IF lets THEN IfLetElse("if1", "x1", Lit("lv"), Var("q1"), <<T("b1"), P("bx", Var("x1"))>>, <<mid, P("ex", IsSetE("x1"))>>)
              ELSE IfElse("if1", Var("q1"), <<T("b1")>>, <<mid>>)
  IN [ts |-> <<Tm("main", "", <<>>, <<T("pre"), top, P("zx", IsSetE("x1")), T("post")>>)>>, globals |-> NoVarsMap,
      runs |-> <<RunR("main", VM3(a, b, c), "D")>>,
      tag |-> "chain|" \o a \o b \o c \o "|" \o (IF he THEN "else" ELSE "noelse") \o (IF lets THEN "|let" ELSE "")]

\* customslice / customchan: custom Rangers declared on a slice type (index-less) and on a chan type (with index)
RKinds == {"slice", "islice", "array", "ptrslice", "map", "chan", "ints", "customidx", "custom", "customslice", "customchan", "nil", "bad"}
ElemsOf(kind, n) == IF kind = "map1" THEN <<"m1">> ELSE IF kind = "ints" THEN [i \in 1..n |-> ToString(i - 1)] ELSE [i \in 1..n |-> "e" \o ToString(i)]

MkRange(par) ==
  LET kind == par[2]  n == par[3]  form == par[4]  asg == par[5]  us == par[6]  he == par[7]
      kn   == IF us \in {"k", "both"} THEN "_" ELSE "k"
      vn   == IF us \in {"v", "both"} THEN "_" ELSE "v"
      pre  == IF asg = "=" THEN <<LetS("lk", "k", Lit("k0")), LetS("lv", "v", Lit("v0"))>> ELSE <<>>
      body == <<T("it")>> \o (IF form # "none" /\ kn # "_" THEN <<P("bk", Var("k"))>> ELSE <<>>)
                          \o (IF form = "kv" /\ vn # "_" THEN <<P("bv", Var("v"))>> ELSE <<>>) \o <<P("bc", Ctx)>>
      coll == ListE(kind, ElemsOf(kind, n))
      rng  == IF he THEN RangeElse("rg", form, kn, vn, asg, coll, body, <<T("empty"), P("ec", Ctx)>>)
              ELSE RangeS("rg", form, kn, vn, asg, coll, body)
      main == <<T("pre")>> \o pre \o <<rng, P("zctx", Ctx), P("zik", IsSetE("k")), T("post")>>
      \* with '=' the loop variables declared by the template shadow Execute variables of the same names: the nearest
      \* declaration is the one assigned to (and read in the body)
      vm   == IF asg = "=" THEN [NoVarsMap EXCEPT !["k"] = "vmk", !["v"] = "vmv"] ELSE NoVarsMap
  IN [ts |-> <<Tm("main", "", <<>>, main)>>, globals |-> NoVarsMap, runs |-> <<RunR("main", vm, "D")>>,
      tag |-> (IF kind = "map" /\ n > 1 THEN "mapset|" ELSE "range|") \o kind \o "|" \o ToString(n) \o "|" \o form \o "|" \o asg
              \o "|" \o us \o "|" \o (IF he THEN "else" ELSE "noelse")]

MkNest(par) ==
  LET k1 == par[2]  k2 == par[3]  same == par[4]
      inner == RangeS("ri", "kv", "x1", "x2", ":=", ListE(k2, ElemsOf(k2, 2)), <<P("ik", Var("x1")), P("iv", Var("x2")), P("ok", Var("k"))>>)
      outer == RangeS("ro", "kv", "k", "v", ":=", ListE(k1, ElemsOf(k1, 3)), <<P("o1", Var("v")), inner, P("o2", Var("v"))>>)
  IN [ts |-> <<Tm("main", "", <<>>, <<T("pre"), outer, T("post")>>)>>, globals |-> NoVarsMap,
      runs |-> <<RunR("main", NoVarsMap, "D")>>, tag |-> "nest|" \o k1 \o "|" \o k2]

\* a range left early through {{return}} (under exec), then nested ranges of the same kind:
\* pooled rangers must not be shared afterwards
MkRetNest(par) ==
  LET kd == par[2]
      inner == RangeS("ri", "kv", "x1", "x2", ":=", ListE(kd, ElemsOf(kd, 2)), <<P("ik", Var("x1")), P("iv", Var("x2")), P("ok", Var("k"))>>)
      outer == RangeS("ro", "kv", "k", "v", ":=", ListE(kd, ElemsOf(kd, 3)), <<P("o1", Var("v")), inner, P("o2", Var("v"))>>)
      early == Tm("early", "", <<>>, <<RangeS("re", "kv", "k", "v", ":=", ListE(kd, ElemsOf(kd, 3)), <<T("eb"), Ret("ret", Var("v"))>>), T("after")>>)
  IN [ts |-> <<Tm("main", "", <<>>, <<T("pre"), ExecLet("ex", "r", "early"), P("pr", Var("r")), outer, T("post")>>), early>>,
      globals |-> NoVarsMap, runs |-> <<RunR("main", NoVarsMap, "D"), RunR("main", NoVarsMap, "D")>>, tag |-> "retnest|" \o kd]

\* a range left early through {{return}} (under exec) with elements still to come, then a range over an EMPTY
\* collection of the same kind: the else branch renders, nothing of the abandoned iteration does
MkRetEmpty(par) ==
  LET kd == par[2]
      early == Tm("early", "", <<>>, <<RangeS("re", "kv", "k", "v", ":=", ListE(kd, ElemsOf(kd, 3)), <<T("eb"), Ret("ret", Lit("rv"))>>), T("after")>>)
      empty == RangeElse("rg", "kv", "k", "v", ":=", ListE(kd, <<>>), <<T("it"), P("bk", Var("k"))>>, <<T("empty")>>)
      empt2 == RangeElse("rg2", "none", "", "", "", ListE(kd, <<>>), <<T("it2")>>, <<T("empty2")>>)
  IN [ts |-> <<Tm("main", "", <<>>, <<T("pre"), ExecLet("ex", "r", "early"), P("pr", Var("r")), empty, empt2, T("post")>>), early>>,
      globals |-> NoVarsMap, runs |-> <<RunR("main", NoVarsMap, "D"), RunR("main", NoVarsMap, "D")>>, tag |-> "retempty|" \o kd]

\* the element a range binds is a value like any other: as '.', as a loop variable, in a condition or printed.
\* Ranges over an interface slice / a string slice / a map holding false, 0, "" and truthy values; the body
\* branches on '.' (zero-variable form) or on the loop variable
MkRangeIf(par) ==
  LET kind == par[2]  form == par[3]
      els  == IF kind = "slice" THEN <<"", "x">> ELSE <<"false", "0", "", "true", "7", "x">>
      cond == IF form = "none" THEN Ctx ELSE Var("v")
      body == <<IfElse("bi", cond, <<T("yes")>>, <<T("no")>>), P("bp", cond)>>
      rng  == RangeS("rg", form, "k", "v", ":=", ListE(kind, els), body)
  IN [ts |-> <<Tm("main", "", <<>>, <<T("pre"), rng, T("post")>>)>>, globals |-> NoVarsMap,
      runs |-> <<RunR("main", NoVarsMap, "D")>>, tag |-> "rangeif|" \o kind \o "|" \o form]

MkC(par) == CASE par[1] = "rangeif" -> MkRangeIf(par) [] par[1] = "retempty" -> MkRetEmpty(par) [] par[1] = "retnest" -> MkRetNest(par) [] par[1] = "if1" -> MkIf1(par) [] par[1] = "chain" -> MkChain(par)
              [] par[1] = "range" -> MkRange(par) [] par[1] = "nest" -> MkNest(par)

IdxKinds == {"slice", "islice", "array", "ptrslice", "ints", "customidx"}
cParams == ({"if1"} \X CondVals \X BOOLEAN)
      \cup ({"chain"} \X ChainVals \X ChainVals \X ChainVals \X BOOLEAN \X BOOLEAN)
      \cup {p \in ({"range"} \X RKinds \X (0..MaxLen) \X {"none", "k", "kv"} \X {":=", "="} \X {"no", "k", "v", "both"} \X BOOLEAN) :
              /\ ~(p[2] = "ints" /\ p[3] = 0)
              /\ (p[4] = "none" => p[6] = "no") /\ (p[4] = "k" => p[6] \in {"no", "k"})
              /\ (p[2] \in {"nil", "bad"} => p[3] = 0)}
      \cup ({"retnest"} \X {"slice", "array", "map1"})
      \cup ({"retempty"} \X {"slice", "array", "map", "ptrslice", "islice"})
      \cup ({"rangeif"} \X {"islice", "slice"} \X {"none", "kv"})
      \cup ({"nest"} \X IdxKinds \X (IdxKinds \ {"customidx"}) \X {TRUE})   \* a custom Ranger is a one-shot iterator
=============================================================================

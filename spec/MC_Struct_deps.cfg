SPECIFICATION Spec
CONSTANTS
  Tokens = {"TEXT", "WS", "ACT", "IF", "ELSE", "ELSEIF", "RANGE", "BLOCK", "CONTENT", "YIELDC", "TRY", "CATCH", "END", "EXTENDS", "IMPORT", "EXTENDS_BADSTR", "IMPORT_BADSTR", "EXTENDS_BROKEN", "IMPORT_BROKEN", "COMMENT", "OPEN_ACTION", "OPEN_COMMENT", "OPEN_COMMENT_OVERLAP", "OPEN_STRING"}
  MaxLen = 4
  Emit = TRUE
INVARIANTS PlainAccepted SurplusEnd EmitVec
CHECK_DEADLOCK FALSE

SPECIFICATION Spec
INVARIANTS TypeOK
POSTCONDITION TraceAccepted
CHECK_DEADLOCK FALSE

------------------------------- MODULE T_Exec0 -------------------------------
EXTENDS JetExec, Json
cNames == {"x", "y", "k", "v"}
T(id) == St("text", id)
P(id, e) == [St("print", id) EXCEPT !.e = e]
LetS(id, n, e) == [St("let", id) EXCEPT !.n = n, !.e = e]
IfS(id, c, b) == [St("if", id) EXCEPT !.e = c, !.b = b]
IfLet(id, n, e2, c, b) == [St("if", id) EXCEPT !.n = n, !.e2 = e2, !.e = c, !.b = b]
TryS(id, b) == [St("try", id) EXCEPT !.b = b]
RangeS(id, f, n, n2, asg, coll, b) == [St("range", id) EXCEPT !.f = f, !.n = n, !.n2 = n2, !.e2 = Ex("asg", asg), !.e = coll, !.b = b]
Tm(name, body) == [name |-> name, ext |-> "", imps |-> <<>>, body |-> body]
RunR(entry) == [entry |-> entry, vars |-> [n \in cNames |-> Unset], data |-> "D"]
C1 == [ts |-> <<Tm("main", << T("a"), TryS("t1", << IfLet("i1", "x", Lit("v1"), FailE, <<T("in")>>) >>), P("p1", IsSetE("x")), P("p2", Ctx) >>)>>,
       globals |-> [n \in cNames |-> Unset], runs |-> <<RunR("main")>>]
C2 == [ts |-> <<Tm("main", << RangeS("r1", "kv", "k", "v", ":=", ListE("slice", <<"e1", "e2">>), << P("pk", Var("k")), P("pv", Var("v")), P("pc", Ctx) >>), P("after", Ctx) >>)>>,
       globals |-> [n \in cNames |-> Unset], runs |-> <<RunR("main")>>]
cCases == <<C1, C2>>
Show == Done => PrintT(<<"RES", ci, results>>)
=============================================================================

SPECIFICATION Spec
CONSTANTS
  LD <- C_LD
  RD <- C_RD
  LC <- C_LC
  RC <- C_RC
  Alphabet <- C_HdrTok
  Headers <- SomeHeaders
  MaxLen = 4
  Emit = TRUE
INVARIANTS NoInvention EmitVec
CHECK_DEADLOCK FALSE

---------------------------- MODULE JetLoaderMem ----------------------------
(***************************************************************************)
(* The in-memory loader (C19): a map keyed by the *normalised* path.  All  *)
(* spellings with the same clean absolute form are one entry across Set,   *)
(* Delete, Exists and Open; Exists(p) => Open(p) yields the stored content.*)
(***************************************************************************)
EXTENDS JetPathOps, Json

CONSTANTS SpellingSeq,  \* sequence of [abs, segs] records
          MaxMuts, Emit

Spellings == {SpellingSeq[i] : i \in 1..Len(SpellingSeq)}

Norm(sp) == Canon(<<>>, sp.abs, sp.segs)          \* path.Join("/", spelling)
Absent   == "ABSENT"
Contents == {"c1", ""}        \* an entry may be empty: it exists all the same

VARIABLES mem, muts
vars == <<mem, muts>>

Init == mem = [k \in {} |-> Absent] /\ muts = <<>>

Get(m, k)    == IF k \in DOMAIN m THEN m[k] ELSE Absent
Put(m, k, c) == [x \in DOMAIN m \cup {k} |-> IF x = k THEN c ELSE m[x]]

MSet(sp, c) == /\ Len(muts) < MaxMuts
               /\ mem' = Put(mem, Norm(sp), c)
               /\ muts' = Append(muts, [op |-> "Set", abs |-> sp.abs, segs |-> sp.segs, c |-> c])
MDelete(sp) == /\ Len(muts) < MaxMuts
               /\ mem' = Put(mem, Norm(sp), Absent)
               /\ muts' = Append(muts, [op |-> "Delete", abs |-> sp.abs, segs |-> sp.segs, c |-> ""])

Next == \E sp \in Spellings : MDelete(sp) \/ \E c \in Contents : MSet(sp, c)
Spec == Init /\ [][Next]_vars

Exists(sp) == Get(mem, Norm(sp)) # Absent
Open(sp)   == Get(mem, Norm(sp))                       \* Absent = error

\* contract: every spelling answers like its canonical spelling
SpellingIndependence ==
  \A sp \in Spellings : LET cs == [abs |-> TRUE, segs |-> Norm(sp)] IN
      Norm(cs) = Norm(sp)

Queries == [i \in 1..Len(SpellingSeq) |->
             [abs |-> SpellingSeq[i].abs, segs |-> SpellingSeq[i].segs,
              exists |-> Exists(SpellingSeq[i]), content |-> Open(SpellingSeq[i])]]

EmitVec == (Emit /\ Len(muts) = MaxMuts) => PrintT(<<"VEC", ToJson([muts |-> muts, queries |-> Queries])>>)
=============================================================================

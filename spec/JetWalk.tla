------------------------------- MODULE JetWalk -------------------------------
(***************************************************************************)
(* The AST and its visitor (C20).  Every construct of the grammar is given *)
(* with its source text and the AST nodes it produces (node type names as  *)
(* in node.go, in pre-order); a template is built by putting every node    *)
(* kind into every child slot of every parent kind, with optional children *)
(* present and absent.  Walk is a depth-first machine over the node list;  *)
(* the contract is that the visit log is exactly the node list.            *)
(***************************************************************************)
EXTENDS Integers, Sequences, FiniteSets, TLC, Json

CONSTANT Emit

N(src, pre) == [src |-> src, pre |-> pre]

\* ---- expressions -------------------------------------------------------
Id   == N("a", <<"IdentifierNode">>)
Id2  == N("b", <<"IdentifierNode">>)
Fld  == N(".F", <<"FieldNode">>)
Str  == N("\"s\"", <<"StringNode">>)
Num  == N("1", <<"NumberNode">>)
Bool == N("true", <<"BoolNode">>)
NilE == N("nil", <<"NilNode">>)
Leaves == {Id, Fld, Str, Num, Bool, NilE}

P(x) == "(" \o x.src \o ")"
Add(x, y)   == N(P(x) \o " + " \o P(y), <<"AdditiveExprNode">> \o x.pre \o y.pre)
Neg(x)      == N("-" \o P(x), <<"AdditiveExprNode">> \o x.pre)                      \* no left operand
Mul(x, y)   == N(P(x) \o " * " \o P(y), <<"MultiplicativeExprNode">> \o x.pre \o y.pre)
Cmp(x, y)   == N(P(x) \o " == " \o P(y), <<"ComparativeExprNode">> \o x.pre \o y.pre)
NumCmp(x, y) == N(P(x) \o " < " \o P(y), <<"NumericComparativeExprNode">> \o x.pre \o y.pre)
Logic(x, y) == N(P(x) \o " && " \o P(y), <<"LogicalExprNode">> \o x.pre \o y.pre)
Not(x)      == N("!" \o P(x), <<"NotExprNode">> \o x.pre)
Tern(c, x, y) == N(P(c) \o " ? " \o P(x) \o " : " \o P(y), <<"TernaryExprNode">> \o c.pre \o x.pre \o y.pre)
Call1(x)    == N("f(" \o x.src \o ")", <<"CallExprNode", "IdentifierNode">> \o x.pre)
Call0       == N("f()", <<"CallExprNode", "IdentifierNode">>)
Call2(x, y) == N("f(" \o x.src \o ", " \o y.src \o ")", <<"CallExprNode", "IdentifierNode">> \o x.pre \o y.pre)
Index(x, i) == N("a[" \o i.src \o "]", <<"IndexExprNode", "IdentifierNode">> \o i.pre)
IndexOf(b, i) == N(b.src \o "[" \o i.src \o "]", <<"IndexExprNode">> \o b.pre \o i.pre)
SliceBoth(lo, hi) == N("a[" \o lo.src \o ":" \o hi.src \o "]", <<"SliceExprNode", "IdentifierNode">> \o lo.pre \o hi.pre)
SliceLo(lo) == N("a[" \o lo.src \o ":]", <<"SliceExprNode", "IdentifierNode">> \o lo.pre)
SliceHi(hi) == N("a[:" \o hi.src \o "]", <<"SliceExprNode", "IdentifierNode">> \o hi.pre)
SliceNone   == N("a[:]", <<"SliceExprNode", "IdentifierNode">>)
Chain(x)    == N(x.src \o ".X", <<"ChainNode">> \o x.pre)                            \* only over call / index bases

\* one representative expression per node kind (children are leaves)
ExprReps == Leaves \cup { Add(Id, Num), Neg(Id), Mul(Id, Num), Cmp(Id, Str), NumCmp(Id, Num), Logic(Id, Bool), Not(Id),
                          Tern(Id, Num, Str), Call0, Call1(Id), Call2(Id, Num), Index(Id, Num), SliceBoth(Num, Num), SliceLo(Num),
                          SliceHi(Num), SliceNone, Chain(Call0), Chain(Index(Id, Num)) }

\* every expression kind in every child slot of every expression parent
ExprNested == UNION {
  { Add(c, Num), Add(Num, c), Neg(c), Mul(c, Num), Mul(Num, c), Cmp(c, Num), Cmp(Num, c), NumCmp(c, Num), NumCmp(Num, c),
    Logic(c, Bool), Logic(Bool, c), Not(c), Tern(c, Num, Num), Tern(Bool, c, Num), Tern(Bool, Num, c),
    Call1(c), Call2(Num, c), Index(Id, c), SliceBoth(c, Num), SliceBoth(Num, c), SliceLo(c), SliceHi(c) } : c \in ExprReps }

\* ---- statements -----------------------------------------------------------
A(s) == "{{ " \o s \o " }}"
Text        == N("t", <<"TextNode">>)
\* {{ e }}: a call expression is absorbed into the command node
PrintS(e)   == N(A(e.src), <<"ActionNode", "PipeNode", "CommandNode">> \o
                           (IF e.pre[1] = "CallExprNode" THEN Tail(e.pre) ELSE e.pre))
Piped(e)    == N(A(e.src \o " | g"), <<"ActionNode", "PipeNode", "CommandNode">> \o
                           (IF e.pre[1] = "CallExprNode" THEN Tail(e.pre) ELSE e.pre) \o <<"CommandNode", "IdentifierNode">>)
PipedSlot(e) == N(A(e.src \o " | g(b, _)"), <<"ActionNode", "PipeNode", "CommandNode">> \o
                           (IF e.pre[1] = "CallExprNode" THEN Tail(e.pre) ELSE e.pre) \o
                           <<"CommandNode", "IdentifierNode", "IdentifierNode", "UnderscoreNode">>)
PrefixCall(e) == N(A("g: " \o e.src), <<"ActionNode", "PipeNode", "CommandNode", "IdentifierNode">> \o e.pre)
Let(e)      == N(A("x := " \o e.src), <<"ActionNode", "SetNode", "IdentifierNode">> \o e.pre)
SetS(e)     == N(A("a = " \o e.src), <<"ActionNode", "SetNode", "IdentifierNode">> \o e.pre)
Let2(e)     == N(A("x, _ := " \o e.src \o ", b"), <<"ActionNode", "SetNode", "IdentifierNode", "UnderscoreNode">> \o e.pre \o <<"IdentifierNode">>)
Lookup(e)   == N(A("v, ok := a[" \o e.src \o "]"), <<"ActionNode", "SetNode", "IdentifierNode", "IdentifierNode", "IndexExprNode", "IdentifierNode">> \o e.pre)
LetPrint(e) == N(A("x := " \o e.src \o "; x"), <<"ActionNode", "SetNode", "IdentifierNode">> \o e.pre \o <<"PipeNode", "CommandNode", "IdentifierNode">>)
RECURSIVE JoinN(_)
\* adjacent literal texts are one text node
JoinN(s)    == IF s = <<>> THEN N("", <<>>)
               ELSE LET r == JoinN(Tail(s)) IN
                    IF Head(s).pre = <<"TextNode">> /\ r.pre # <<>> /\ r.pre[1] = "TextNode"
                    THEN N(Head(s).src \o r.src, r.pre)
                    ELSE N(Head(s).src \o r.src, Head(s).pre \o r.pre)
L(list)     == LET j == JoinN(list) IN N(j.src, <<"ListNode">> \o j.pre)
If(c, b)        == N(A("if " \o c.src) \o b.src \o A("end"), <<"IfNode">> \o c.pre \o b.pre)
IfElse(c, b, e) == N(A("if " \o c.src) \o b.src \o A("else") \o e.src \o A("end"), <<"IfNode">> \o c.pre \o b.pre \o e.pre)
IfLet(c, b)     == N(A("if x := " \o c.src \o "; x") \o b.src \o A("end"), <<"IfNode", "SetNode", "IdentifierNode">> \o c.pre \o <<"IdentifierNode">> \o b.pre)
ElseIf(c, b, e) == N(A("if a") \o b.src \o A("else if " \o c.src) \o e.src \o A("end"),
                     <<"IfNode", "IdentifierNode">> \o b.pre \o <<"ListNode", "IfNode">> \o c.pre \o e.pre)
Range(c, b)     == N(A("range " \o c.src) \o b.src \o A("end"), <<"RangeNode">> \o c.pre \o b.pre)
RangeElse(c, b, e) == N(A("range " \o c.src) \o b.src \o A("else") \o e.src \o A("end"), <<"RangeNode">> \o c.pre \o b.pre \o e.pre)
RangeKV(c, b)   == N(A("range k, v := " \o c.src) \o b.src \o A("end"), <<"RangeNode", "SetNode", "IdentifierNode", "IdentifierNode">> \o c.pre \o b.pre)
Block(b)        == N(A("block blk()") \o b.src \o A("end"), <<"BlockNode">> \o b.pre)
BlockFull(d, cx, b, ct) == N(A("block blk(p, q=" \o d.src \o ") " \o cx.src) \o b.src \o A("content") \o ct.src \o A("end"),
                             <<"BlockNode">> \o d.pre \o cx.pre \o b.pre \o ct.pre)
Yield           == N(A("yield blk()"), <<"YieldNode">>)
YieldFull(a, cx, ct) == N(A("yield blk(q=" \o a.src \o ") " \o cx.src \o " content") \o ct.src \o A("end"), <<"YieldNode">> \o a.pre \o cx.pre \o ct.pre)
YContent        == N(A("yield content"), <<"YieldNode">>)
YContentCx(cx)  == N(A("yield content " \o cx.src), <<"YieldNode">> \o cx.pre)
Include(n)      == N(A("include " \o n.src), <<"IncludeNode">> \o n.pre)
IncludeCx(n, cx) == N(A("include " \o n.src \o " " \o cx.src), <<"IncludeNode">> \o n.pre \o cx.pre)
Try(b)          == N(A("try") \o b.src \o A("end"), <<"TryNode">> \o b.pre)
TryCatch(b, c)  == N(A("try") \o b.src \o A("catch") \o c.src \o A("end"), <<"TryNode">> \o b.pre \o <<"catchNode">> \o c.pre)
TryCatchVar(b, c) == N(A("try") \o b.src \o A("catch err") \o c.src \o A("end"), <<"TryNode">> \o b.pre \o <<"catchNode", "IdentifierNode">> \o c.pre)
Return(e)       == N(A("return " \o e.src), <<"ReturnNode">> \o e.pre)

B1 == L(<<Text>>)
StmtReps == { Text, PrintS(Id), Piped(Id), PipedSlot(Id), PrefixCall(Num), Let(Num), SetS(Num), Let2(Num), Lookup(Str), LetPrint(Num),
              If(Id, B1), IfElse(Id, B1, B1), IfLet(Num, B1), ElseIf(Id, B1, B1), Range(Id, B1), RangeElse(Id, B1, B1), RangeKV(Id, B1),
              Block(B1), BlockFull(Num, Id, B1, B1), Yield, YieldFull(Num, Id, B1), YContent, YContentCx(Id),
              Include(Str), IncludeCx(Str, Id), Try(B1), TryCatch(B1, B1), TryCatchVar(B1, B1), Return(Num) }

\* every expression representative in every expression slot of every statement
StmtWithExprAt(k, e) ==
  CASE k = 1 -> PrintS(e) [] k = 2 -> Piped(e) [] k = 3 -> PipedSlot(e) [] k = 4 -> PrefixCall(e) [] k = 5 -> Let(e) [] k = 6 -> SetS(e)
    [] k = 7 -> Let2(e) [] k = 8 -> Lookup(e) [] k = 9 -> LetPrint(e) [] k = 10 -> If(e, B1) [] k = 11 -> IfLet(e, B1)
    [] k = 12 -> ElseIf(e, B1, B1) [] k = 13 -> Range(e, B1) [] k = 14 -> RangeKV(e, B1) [] k = 15 -> BlockFull(e, Id, B1, B1)
    [] k = 16 -> BlockFull(Num, e, B1, B1) [] k = 17 -> YieldFull(e, Id, B1) [] k = 18 -> YieldFull(Num, e, B1) [] k = 19 -> YContentCx(e)
    [] k = 20 -> Include(e) [] k = 21 -> IncludeCx(Str, e) [] k = 22 -> Return(e)

\* every statement representative in every list slot of every statement parent
StmtNestedAt(k, s) ==
  CASE k = 1 -> If(Id, L(<<s>>)) [] k = 2 -> IfElse(Id, B1, L(<<s>>)) [] k = 3 -> Range(Id, L(<<s, Text>>)) [] k = 4 -> RangeElse(Id, B1, L(<<s>>))
    [] k = 5 -> Block(L(<<Text, s>>)) [] k = 6 -> BlockFull(Num, Id, B1, L(<<s>>)) [] k = 7 -> YieldFull(Num, Id, L(<<s>>))
    [] k = 8 -> Try(L(<<s>>)) [] k = 9 -> TryCatch(B1, L(<<s>>)) [] k = 10 -> TryCatchVar(L(<<s>>), B1)

\* ---- stray control actions -------------------------------------------------
\* {{else}}, {{content}}, {{catch}}..{{end}} inside a list they do not belong to.  The grammar has no such
\* production: the parser must reject them; were one accepted, Walk would still have to cope with its tree.
\* (pre = <<"REJECT">> marks "no template")
StrayElse    == N(A("else"), <<>>)
StrayContent == N(A("content"), <<>>)
StrayCatch   == N(A("catch") \o "c" \o A("end"), <<>>)
StrayCatchV  == N(A("catch e") \o "c" \o A("end"), <<>>)
Rej(src) == N(src, <<"REJECT">>)
StrayIn(x) ==
  { Rej(A("block blk()") \o "p" \o x.src \o "q" \o A("end")), Rej(A("try") \o "p" \o x.src \o "q" \o A("end")),
    Rej(A("yield blk() content") \o "p" \o x.src \o "q" \o A("end")),
    Rej(A("if a") \o "p" \o A("else") \o "q" \o x.src \o "r" \o A("end")),
    Rej(A("range a") \o "p" \o A("else") \o "q" \o x.src \o "r" \o A("end")),
    Rej(A("block blk()") \o "p" \o A("content") \o "q" \o x.src \o "r" \o A("end")),
    Rej(A("try") \o "p" \o A("catch") \o "q" \o x.src \o "r" \o A("end")) }
Strays == (StrayIn(StrayElse) \cup StrayIn(StrayContent) \cup StrayIn(StrayCatch) \cup StrayIn(StrayCatchV)
          \cup { Rej(A("if a") \o "p" \o StrayContent.src \o "q" \o A("end")), Rej(A("range a") \o "p" \o StrayContent.src \o "q" \o A("end")),
                 Rej(A("if a") \o "p" \o StrayCatch.src \o "q" \o A("end")), Rej(A("range a") \o "p" \o StrayCatchV.src \o "q" \o A("end")),
                 Rej("a" \o StrayCatch.src \o "b"), Rej("a" \o StrayCatchV.src \o "b") })
          \ { Rej(A("try") \o "p" \o StrayCatch.src \o "q" \o A("end")), Rej(A("try") \o "p" \o StrayCatchV.src \o "q" \o A("end")),  \* try..catch..end + "q{{end}}"
              Rej(A("block blk()") \o "p" \o StrayContent.src \o "q" \o A("end")) }                                                    \* a block's own content

---------------------------------------------------------------------------
(* Walk: a depth-first machine over the template's nodes (pre-order). *)
VARIABLES tmpl, todo, visited
vars == <<tmpl, todo, visited>>
Init == /\ \/ \E s \in StmtReps : tmpl = L(<<s>>)
           \/ \E k \in 1..22, e \in ExprReps \cup ExprNested : tmpl = L(<<StmtWithExprAt(k, e)>>)
           \/ \E k \in 1..10, s \in StmtReps : tmpl = L(<<StmtNestedAt(k, s)>>)
           \/ \E r \in Strays : tmpl = r
        /\ todo = tmpl.pre /\ visited = <<>>
Visit == todo # <<>> /\ visited' = Append(visited, Head(todo)) /\ todo' = Tail(todo) /\ UNCHANGED tmpl
Spec == Init /\ [][Visit]_vars
Done == todo = <<>>

\* every node is reached exactly once, in pre-order: the visit log is the node list
VisitsEachOnce == Done => visited = tmpl.pre
NeverTwice == Len(visited) + Len(todo) = Len(tmpl.pre)

EmitVec == (Emit /\ Done) => PrintT(<<"VEC", ToJson([src |-> tmpl.src, pre |-> tmpl.pre])>>)
=============================================================================

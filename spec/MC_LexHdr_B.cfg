SPECIFICATION Spec
CONSTANTS
  LD <- B_LD
  RD <- B_RD
  LC <- B_LC
  RC <- B_RC
  Alphabet <- B_HdrTok
  Headers <- SomeHeaders
  MaxLen = 4
  Emit = TRUE
INVARIANTS NoInvention EmitVec
CHECK_DEADLOCK FALSE

------------------------------- MODULE Gen_Soak -------------------------------
(* C13 / C10, many times over: a construct that fails inside a try body, N times *)
(* in one execution (a range over N integers), leaves nothing behind - the same  *)
(* construct with a body that succeeds renders after the loop what it rendered   *)
(* before it.  Whatever the interpreter counts, pools or stacks per construct is *)
(* given back on the failure path as on the normal one.                          *)
EXTENDS JetProg
CONSTANTS N, Depth, Kinds

MkC(path) ==
  LET rf   == Build(path, 1, <<T("f0"), P("ff", FailE), T("f1")>>)
      rb   == Build(path, 4, <<T("g0"), P("gp", Ctx)>>)
      ra   == Build(path, 7, <<T("h0"), P("hp", Ctx)>>)
      loop == RangeS("soak", "k", "k", "", ":=", ListE("ints", [i \in 1..N |-> ToString(i - 1)]), <<TryS("try", rf.main)>>)
      main == <<T("pre"), LetS("ls", "s", Lit("s0"))>> \o Probes("a") \o rb.main \o <<loop>> \o ra.main \o Probes("z")
      lib  == Tm("lib", "", <<>>, rf.bl \o rb.bl \o ra.bl)
  IN [ts |-> <<Tm("main", "", <<"lib">>, main), lib>> \o rf.ts \o rb.ts \o ra.ts, globals |-> NoVarsMap,
      runs |-> <<RunR("main", NoVarsMap, "D"), RunR("main", NoVarsMap, "D")>>, tag |-> "soak|" \o PathTag(path)]

cParams == {p \in PathsUpTo(Kinds, Depth) : p # <<>>}
=============================================================================

------------------------------- MODULE JetLex -------------------------------
(***************************************************************************)
(* Source text to rendered text (C03), as a contract over byte strings,    *)
(* parametric in the action and comment delimiters:                        *)
(*   - text outside actions and comments is copied byte for byte;          *)
(*   - a comment LC ... RC contributes nothing;                            *)
(*   - an action LD ["- "] body [" -"] RD renders the value of its body;   *)
(*     a left trim marker removes exactly the run of space / tab / CR / LF *)
(*     immediately before the action, a right trim marker exactly the run  *)
(*     immediately after it;                                               *)
(*   - nothing else is added or removed.                                   *)
(* Action bodies are restricted to one identifier (x, xx, ...) between     *)
(* optional spaces; inputs with any other action body are "unspecified"    *)
(* (this module says nothing about them, C02/C04 do).                      *)
(*                                                                         *)
(* The machine grows an input byte by byte; every reachable state is an    *)
(* input string, so TLC enumerates ALL strings up to the bound.            *)
(***************************************************************************)
EXTENDS Integers, Sequences, FiniteSets, TLC, Json

CONSTANTS LD, RD, LC, RC,      \* delimiters: sequences of one-character strings
          Alphabet,            \* set of tokens; a token is a sequence of one-character strings
          Headers,             \* set of header shapes: sequences over {"ws", "imp"} put before the input
          MaxLen, Emit

WS == {" ", "\n", "\t", "\r"}

StartsWith(inp, p, pat) == /\ p + Len(pat) - 1 <= Len(inp)
                           /\ \A i \in 1..Len(pat) : inp[p + i - 1] = pat[i]

RECURSIVE FindFrom(_, _, _)
FindFrom(inp, p, pat) == IF p + Len(pat) - 1 > Len(inp) THEN 0
                         ELSE IF StartsWith(inp, p, pat) THEN p ELSE FindFrom(inp, p + 1, pat)
RECURSIVE SkipWS(_, _)
SkipWS(inp, p) == IF p <= Len(inp) /\ inp[p] \in WS THEN SkipWS(inp, p + 1) ELSE p
RECURSIVE SkipX(_, _)
SkipX(inp, p) == IF p <= Len(inp) /\ inp[p] = "x" THEN SkipX(inp, p + 1) ELSE p

\* drop the whitespace suffix of `out`, but never below position `floor`
RECURSIVE TrimTail(_, _)
TrimTail(out, floor) == IF Len(out) > floor /\ out[Len(out)] \in WS THEN TrimTail(SubSeq(out, 1, Len(out) - 1), floor) ELSE out

\* an action starting at p (inp[p..] starts with LD): [kind, next, ltrim, rtrim, n]
Action(inp, p) ==
  LET q   == p + Len(LD)
      lt  == StartsWith(inp, q, <<"-", " ">>)
      q1  == SkipWS(inp, IF lt THEN q + 2 ELSE q)
      q2  == SkipX(inp, q1)                         \* identifier x+
      q3  == SkipWS(inp, q2)
      bad == [kind |-> "unspec", next |-> 0, ltrim |-> FALSE, rtrim |-> FALSE, n |-> 0]
  IN IF q2 = q1 THEN bad                             \* no identifier
     ELSE IF ~lt /\ q1 = q /\ FALSE THEN bad
     ELSE IF StartsWith(inp, q3, RD) THEN [kind |-> "ok", next |-> q3 + Len(RD), ltrim |-> lt, rtrim |-> FALSE, n |-> q2 - q1]
     ELSE IF q3 > q2 /\ inp[q3 - 1] = " " /\ StartsWith(inp, q3, <<"-">> \o RD)     \* the marker is blank + minus
          THEN [kind |-> "ok", next |-> q3 + 1 + Len(RD), ltrim |-> lt, rtrim |-> TRUE, n |-> q2 - q1]
     ELSE bad

\* the contract: [kind \in {"ok", "error", "unspec"}, out]
RECURSIVE Render(_, _, _, _)
Render(inp, p, out, floor) ==
  IF p > Len(inp) THEN [kind |-> "ok", out |-> out]
  ELSE IF StartsWith(inp, p, LD) THEN
       LET a == Action(inp, p) IN
       IF a.kind # "ok" THEN [kind |-> "unspec", out |-> <<>>]
       ELSE LET o1 == IF a.ltrim THEN TrimTail(out, floor) ELSE out
                o2 == Append(o1, "@" \o ToString(a.n))
                nx == IF a.rtrim THEN SkipWS(inp, a.next) ELSE a.next
            IN Render(inp, nx, o2, Len(o2))
  ELSE IF StartsWith(inp, p, LC) THEN
       LET e == FindFrom(inp, p + Len(LC), RC) IN
       IF e = 0 THEN [kind |-> "error", out |-> <<>>]
       ELSE Render(inp, e + Len(RC), out, Len(out))
  ELSE Render(inp, p + 1, Append(out, inp[p]), floor)

Rendered(inp) == Render(inp, 1, <<>>, 0)

---------------------------------------------------------------------------
VARIABLES input, ntok, hdr
Init == input = <<>> /\ ntok = 0 /\ hdr \in Headers
Extend(tok) == ntok < MaxLen /\ input' = input \o tok /\ ntok' = ntok + 1 /\ UNCHANGED hdr
Next == \E tok \in Alphabet : Extend(tok)
Spec == Init /\ [][Next]_<<input, ntok, hdr>>

\* leading import clauses: they render nothing, and whitespace-only text next to them is dropped
HasClause(h) == \E i \in 1..Len(h) : h[i] = "imp"
RECURSIVE HdrWS(_)
HdrWS(h) == IF h = <<>> THEN <<>> ELSE (IF Head(h) = "ws" THEN <<" ", "\n">> ELSE <<>>) \o HdrWS(Tail(h))
\* whitespace after the last clause belongs to the body's first text run
RECURSIVE AfterLastClause(_)
AfterLastClause(h) == IF h = <<>> THEN <<>> ELSE IF \E i \in 1..Len(h) : h[i] = "imp" THEN AfterLastClause(Tail(h)) ELSE h
\* "whitespace-only" next to a clause is Go's strings.TrimSpace notion (any Unicode space, here also form feed);
\* the property fixes the set only for trim markers (space, tab, CR, LF)
RECURSIVE SkipHdrWS(_, _)
SkipHdrWS(inp, p) == IF p <= Len(inp) /\ inp[p] \in (WS \cup {"\f"}) THEN SkipHdrWS(inp, p + 1) ELSE p
RenderedWithHeader ==
  IF ~HasClause(hdr) THEN Rendered(HdrWS(hdr) \o input)
  ELSE LET body == HdrWS(AfterLastClause(hdr)) \o input
           p0   == SkipHdrWS(body, 1)
           wsOnlyRun == p0 > Len(body) \/ StartsWith(body, p0, LD) \/ StartsWith(body, p0, LC)
       IN Render(body, IF wsOnlyRun THEN p0 ELSE 1, <<>>, 0)

\* contract sanity: what is rendered never exceeds the input, and literal bytes keep their order
NoInvention == LET r == RenderedWithHeader IN r.kind = "ok" => Len(r.out) <= Len(input) + 2 * Len(hdr)

EmitVec == Emit => LET r == RenderedWithHeader IN
                   r.kind # "unspec" => PrintT(<<"VEC", ToJson([hdr |-> hdr, inp |-> input, kind |-> r.kind, out |-> r.out])>>)
=============================================================================

SPECIFICATION Spec
CONSTANTS
  Lexemes = {"ident", "under", "underletter", "undermb", "mbident", "field", "dot", "int", "float", "signedint", "hex", "badnum", "imag", "string", "rawstring", "char", "openstring", "openraw", "openchar", "plus", "minus", "mul", "div", "mod", "eq", "neq", "lt", "le", "assign", "decl", "and", "or", "amp", "not", "pipe", "comma", "semi", "colon", "question", "lparen", "rparen", "lbrack", "rbrack", "space", "newline", "kwif", "kwend", "kwnil", "kwrange", "kwcontent", "symbol", "control", "badutf8", "nbsp", "true", "mbdigit", "mbspace", "ampfield", "bigint", "bigexp", "multichar"}
  Contexts = {"plain", "range", "include", "return", "paren", "try"}
  MaxLen = 3
  Emit = TRUE
INVARIANTS EmitVec
CHECK_DEADLOCK FALSE

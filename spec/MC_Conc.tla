------------------------------- MODULE MC_Conc -------------------------------
EXTENDS JetConc
\* two goroutines: concurrent first load of the same template, then execute while a global is updated
P1 == << <<GT("a"), EX("a")>>, <<GT("a"), AG(2), EX("a")>> >>
\* loader edit between two loads; different names
P2 == << <<GT("a"), LS("a", 2), GT("b")>>, <<GT("a"), EX("a"), LG>> >>
\* three goroutines
P3 == << <<GT("a"), EX("a")>>, <<AG(1), GT("a")>>, <<LS("a", 3), GT("a"), EX("a")>> >>
P4 == << <<GT("b"), EX("b"), AG(3)>>, <<GT("b"), LG, EX("b")>> >>
cProgramsQuick == {P1, P2}
cProgramsAll == {P1, P2, P3, P4}
=============================================================================

------------------------------- MODULE MC_Conc -------------------------------
EXTENDS JetConc
\* two goroutines: concurrent first load of the same template, then execute while a global is updated
P1 == << <<GT("a"), EX("a")>>, <<GT("a"), AG(2), EX("a")>> >>
\* loader edit between two loads; different names
P2 == << <<GT("a"), LS("a", 2), GT("b")>>, <<GT("a"), EX("a"), LG>> >>
\* three goroutines
P3 == << <<GT("a"), EX("a")>>, <<AG(1), GT("a")>>, <<LS("a", 3), GT("a"), EX("a")>> >>
P4 == << <<GT("b"), EX("b"), AG(3)>>, <<GT("b"), LG, EX("b")>> >>
\* Parse pulling a template in while another goroutine loads it; run-time include racing a first load
P5 == << <<PA("a"), GT("a")>>, <<GT("a"), LS("a", 2), PA("a")>> >>
P6 == << <<EXI("a"), LG>>, <<AG(1), GT("a"), EX("a")>> >>
P7 == << <<EXI("b")>>, <<EXI("b"), AG(2)>>, <<LS("b", 2), GT("b")>> >>
cProgramsQuick == {P1, P2, P5, P6}
cProgramsAll == {P1, P2, P3, P4, P5, P6, P7}
=============================================================================

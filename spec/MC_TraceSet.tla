---------------------------- MODULE MC_TraceSet ----------------------------
EXTENDS Trace_Set
cExts == ndJsonDeserialize("trace_set_cfg.ndjson")[1].exts
cDev  == ndJsonDeserialize("trace_set_cfg.ndjson")[1].dev
=============================================================================

------------------------------- MODULE Gen_C01 -------------------------------
(* C01: every rendered value is escaped exactly once by the Set's escaper; only a *)
(* SafeWriter as last pipeline stage bypasses it; literal text is never escaped.  *)
(* In the specification a rendered chunk is tagged V (escaped once) or R:<stage>  *)
(* (the SafeWriter's own escaping); try buffers are copied without re-escaping.   *)
EXTENDS JetProg
CONSTANTS Depth

Shapes  == {"str", "int", "float", "bool", "bytes", "stringer", "error", "ptrstr", "struct", "longstr", "istr", "apos", "nul", "quot", "numstringer"}
Stages  == {"", "raw", "unsafe", "safeHtml", "safeJs", "usersw"}
Focals  == {"plain", "thenfail", "ctx", "twice", "swargfail", "swarginc"}

MkC(par) ==
  LET path == par[1]  shape == par[2]  stage == par[3]  f == par[4]
      pr(id, e) == [St("print", id) EXCEPT !.e = e, !.f = stage]
      focal == CASE f = "plain"    -> <<T("f0"), pr("fp", Var("q1")), T("f1")>>
                 [] f = "thenfail" -> <<T("f0"), pr("fp", Var("q1")), P("ff", FailE), T("f1")>>
                 [] f = "ctx"      -> <<T("f0"), pr("fp", Ctx), T("f1")>>
                 [] f = "swargfail" -> <<T("f0"), TryS("ftry", <<[pr("fp", Var("q1")) EXCEPT !.g = "argfail"]>>), P("fq", Var("q1")), T("f1")>>
                 [] f = "swarginc" -> <<T("f0"), [pr("fp", Var("q1")) EXCEPT !.g = "arginc"], P("fq", Var("q1")), T("f1")>>
                 [] f = "twice"    -> <<pr("fp", Var("q1")), pr("fp2", Var("q1"))>>
      r     == Build(path, 1, focal)
      main  == <<T("pre"), LetS("ls", "s", Lit("s0"))>> \o r.main \o <<pr("zp", Var("q1")), T("post")>>
  IN [ts |-> <<Tm("main", "", <<"lib">>, main), Tm("lib", "", <<>>, r.bl), Tm("swinner", "", <<>>, <<Raw("ri", Lit("swi"))>>)>> \o r.ts,
      globals |-> NoVarsMap, runs |-> <<RunR("main", [NoVarsMap EXCEPT !["q1"] = "val:" \o shape], "val:" \o shape)>>,
      tag |-> PathTag(path) \o "|" \o shape \o "|" \o stage \o "|" \o f]

AllPaths == PathsUpTo(WrapKinds, Depth)
cParams == {p \in AllPaths \X Shapes \X Stages \X Focals :
              /\ (p[4] \in {"swargfail", "swarginc"} => p[3] # "")
              /\ (Len(p[1]) <= 1 \/ (p[2] \in {"str", "stringer"} /\ p[3] \in {"", "raw", "safeHtml"} /\ p[4] \in {"plain", "thenfail"}))}
=============================================================================

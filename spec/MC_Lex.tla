------------------------------- MODULE MC_Lex -------------------------------
EXTENDS JetLex
NoHeader == {<<>>}
SomeHeaders == {<<"imp">>, <<"ws", "imp">>, <<"imp", "ws">>, <<"ws", "imp", "ws", "imp", "ws">>, <<"ws">>}
\* configuration A: default delimiters
A_LD == <<"{", "{">>  A_RD == <<"}", "}">>  A_LC == <<"{", "*">>  A_RC == <<"*", "}">>
A_Alpha == {<<"{">>, <<"}">>, <<"*">>, <<"-">>, <<" ">>, <<"\n">>, <<"x">>}
\* configuration B: custom action delimiters, default comment delimiters
B_LD == <<"[", "[">>  B_RD == <<"]", "]">>  B_LC == <<"{", "*">>  B_RC == <<"*", "}">>
B_Alpha == {<<"[">>, <<"]">>, <<"{">>, <<"*">>, <<"}">>, <<"-">>, <<" ">>, <<"x">>}
\* configuration C: custom action and comment delimiters sharing their first byte
C_LD == <<"[", "[">>  C_RD == <<"]", "]">>  C_LC == <<"[", "*">>  C_RC == <<"*", "]">>
C_Alpha == {<<"[">>, <<"]">>, <<"*">>, <<"-">>, <<" ">>, <<"\n">>, <<"x">>}
\* configuration D: asymmetric three-byte delimiters
D_LD == <<"<", "%">>  D_RD == <<"%", ">">>  D_LC == <<"<", "#">>  D_RC == <<"#", ">">>
D_Alpha == {<<"<">>, <<"%">>, <<">">>, <<"#">>, <<"-">>, <<" ">>, <<"x">>}
\* <<" ", " ", "-">>: a right trim marker behind exactly one more blank (the lexer has a shortcut for that)
\* "\f" (form feed) is white space for Unicode but not for Jet: trim markers leave it alone
\* configuration E: default action delimiters, comment delimiters of unequal length
E_LD == <<"{", "{">>  E_RD == <<"}", "}">>  E_LC == <<"<", "!", "-", "-">>  E_RC == <<"-", "-", ">">>
E_Alpha == {<<"{">>, <<"}">>, <<"<">>, <<"!">>, <<"-">>, <<">">>, <<" ">>, <<"x">>}
\* configuration F: only the LEFT comment marker is configured (WithCommentDelims("<#", "")): the right one stays "*}"
F_LD == <<"{", "{">>  F_RD == <<"}", "}">>  F_LC == <<"<", "#">>  F_RC == <<"*", "}">>
F_Alpha == {<<"{">>, <<"}">>, <<"<">>, <<"#">>, <<"*">>, <<"-">>, <<" ">>, <<"x">>}
F_Tok == {F_LD, F_RD, F_LC, F_RC, <<"{", "*">>, <<"-", " ">>, <<" ", "-">>, <<" ", " ", "-">>, <<" ">>, <<"\n">>, <<"x">>, <<"x", "x">>, <<"a">>,
           <<F_LD[1]>>, <<F_RD[1]>>, <<F_LC[2]>>, <<"-">>, <<"*">>}
F_HdrTok == {F_LD \o <<"x">> \o F_RD, F_LD \o <<"-", " ", "x", " ", "-">> \o F_RD, <<" ">>, <<"\n">>, <<"a">>, <<" ", "a">>, <<"\f">>, <<"a", "\f", " ">>}
E_Tok == {E_LD, E_RD, E_LC, E_RC, <<"-", " ">>, <<" ", "-">>, <<" ", " ", "-">>, <<" ">>, <<"\n">>, <<" ", "\n", "\t">>, <<"\f">>, <<"x">>, <<"x", "x">>, <<"a">>,
           <<E_LD[1]>>, <<E_RD[1]>>, <<E_LC[2]>>, <<"-">>, <<"-", "-">>, <<">">>}
E_HdrTok == {E_LD \o <<"x">> \o E_RD, E_LD \o <<"-", " ", "x", " ", "-">> \o E_RD, <<" ">>, <<"\n">>, <<"a">>, <<" ", "a">>, <<"\f">>, <<"a", "\f", " ">>}
A_Tok == {A_LD, A_RD, A_LC, A_RC, <<"-", " ">>, <<" ", "-">>, <<" ", " ", "-">>, <<" ">>, <<"\n">>, <<" ", "\n", "\t">>, <<"\f">>, <<"x">>, <<"x", "x">>, <<"a">>,
           <<A_LD[1]>>, <<A_RD[1]>>, <<A_LC[2]>>, <<"-">>}
B_Tok == {B_LD, B_RD, B_LC, B_RC, <<"-", " ">>, <<" ", "-">>, <<" ", " ", "-">>, <<" ">>, <<"\n">>, <<" ", "\n", "\t">>, <<"\f">>, <<"x">>, <<"x", "x">>, <<"a">>,
           <<B_LD[1]>>, <<B_RD[1]>>, <<B_LC[2]>>, <<"-">>}
C_Tok == {C_LD, C_RD, C_LC, C_RC, <<"-", " ">>, <<" ", "-">>, <<" ", " ", "-">>, <<" ">>, <<"\n">>, <<" ", "\n", "\t">>, <<"\f">>, <<"x">>, <<"x", "x">>, <<"a">>,
           <<C_LD[1]>>, <<C_RD[1]>>, <<C_LC[2]>>, <<"-">>}
D_Tok == {D_LD, D_RD, D_LC, D_RC, <<"-", " ">>, <<" ", "-">>, <<" ", " ", "-">>, <<" ">>, <<"\n">>, <<" ", "\n", "\t">>, <<"\f">>, <<"x">>, <<"x", "x">>, <<"a">>,
           <<D_LD[1]>>, <<D_RD[1]>>, <<D_LC[2]>>, <<"-">>}
A_HdrTok == {A_LD \o <<"x">> \o A_RD, A_LD \o <<"-", " ", "x", " ", "-">> \o A_RD, <<" ">>, <<"\n">>, <<"a">>, <<" ", "a">>, <<"\f">>, <<"a", "\f", " ">>}
B_HdrTok == {B_LD \o <<"x">> \o B_RD, B_LD \o <<"-", " ", "x", " ", "-">> \o B_RD, <<" ">>, <<"\n">>, <<"a">>, <<" ", "a">>, <<"\f">>, <<"a", "\f", " ">>}
C_HdrTok == {C_LD \o <<"x">> \o C_RD, C_LD \o <<"-", " ", "x", " ", "-">> \o C_RD, <<" ">>, <<"\n">>, <<"a">>, <<" ", "a">>, <<"\f">>, <<"a", "\f", " ">>}
D_HdrTok == {D_LD \o <<"x">> \o D_RD, D_LD \o <<"-", " ", "x", " ", "-">> \o D_RD, <<" ">>, <<"\n">>, <<"a">>, <<" ", "a">>, <<"\f">>, <<"a", "\f", " ">>}
=============================================================================

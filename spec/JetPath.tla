------------------------------ MODULE JetPath ------------------------------
(***************************************************************************)
(* Template names and their canonical form (property C15).                 *)
(*                                                                         *)
(* A *spelling* is what a user writes in GetTemplate / extends / import /  *)
(* include / exec / includeIfExists / Parse: an optional leading "/" and a *)
(* sequence of segments joined by "/".  Segments are drawn from            *)
(*   "a", "b"   ordinary names                                             *)
(*   ".", ".."  the two special names                                      *)
(*   ""         the empty segment ("//", or a trailing "/")                *)
(*                                                                         *)
(* CONTRACT (written from the property text only):                         *)
(*   Canon(refdir, n) is the clean absolute path the Set must hand to its  *)
(*   Loader and Cache, where refdir is the (clean) directory of the        *)
(*   referring template, or <<>> for entry points that resolve against the *)
(*   root.                                                                 *)
(*                                                                         *)
(* The module is also a little state machine that *grows* a spelling one   *)
(* segment at a time (so TLC parallelises and -simulate works) and then    *)
(* issues it through one entry point; the terminal states are the vectors  *)
(* replayed against the real library.                                      *)
(***************************************************************************)
EXTENDS Naturals, Sequences, FiniteSets, TLC, Json

CONSTANTS MaxSegs,        \* longest spelling explored
          MaxDepth,       \* deepest referring directory explored
          ExtLists,       \* set of extension lists (sequences of strings)
          Emit            \* TRUE: print one VEC line per terminal state

Seg      == {"a", "b", ".", "..", ""}
Ordinary == {"a", "b"}

Entries  == {"GetTemplate", "extends", "import", "include", "includeData",
             "exec", "includeIfExists", "ParseExtends"}

\* entry points whose relative names resolve against the referring template
Relative(e) == e \in {"extends", "import", "include", "includeData", "ParseExtends"}

---------------------------------------------------------------------------
(* The contract. *)

RECURSIVE CleanFrom(_, _)
CleanFrom(stack, segs) ==
  IF segs = <<>> THEN stack
  ELSE LET s == Head(segs) IN
       CleanFrom(IF s = "" \/ s = "." THEN stack
                 ELSE IF s = ".."
                      THEN (IF stack = <<>> THEN <<>> ELSE SubSeq(stack, 1, Len(stack) - 1))
                      ELSE Append(stack, s),
                 Tail(segs))

\* refdir: clean directory (sequence of ordinary segments) of the referrer
\* a spelling is absolute when it begins with "/": an explicit leading slash, or a leading
\* empty segment (the spelling of <<"", "x">> without leading slash is "/x")
\* (a single empty segment spells the empty string, which is relative)
IsAbs(abs, segs) == abs \/ (Len(segs) >= 2 /\ Head(segs) = "")
Canon(refdir, abs, segs) == CleanFrom(IF IsAbs(abs, segs) THEN <<>> ELSE refdir, segs)

IsClean(p) == \A i \in 1..Len(p) : p[i] \in Ordinary

\* The directory of the referring template at depth d: /a, /a/b, ...
RefDir(d) == IF d = 0 THEN <<>> ELSE IF d = 1 THEN <<"a">> ELSE <<"a", "b">>

---------------------------------------------------------------------------
(* The probe protocol of one lookup: which paths reach Cache and Loader    *)
(* (documented on Set.GetTemplate and Cache.Get: all candidates in the     *)
(* cache first, then all candidates in the loader, first existing wins).   *)
(* `hit` is 0 when no candidate exists in the loader, else the index of    *)
(* the first extension whose candidate exists.                             *)

Call(op, path, ext) == [op |-> op, path |-> path, ext |-> ext]

ProbeCalls(c, exts, hit, dev, caches) ==
  LET gets  == IF dev THEN <<>> ELSE [i \in 1..Len(exts) |-> Call("Get", c, exts[i])]
      last  == IF hit = 0 THEN Len(exts) ELSE hit
      exs   == [i \in 1..last |-> Call("Exists", c, exts[i])]
      open  == IF hit = 0 THEN <<>> ELSE <<Call("Open", c, exts[hit])>>
      put   == IF hit # 0 /\ caches /\ ~dev THEN <<Call("Put", c, exts[hit])>> ELSE <<>>
  IN gets \o exs \o open \o put

---------------------------------------------------------------------------
(* Generator machine *)

VARIABLES segs, phase, obs
vars == <<segs, phase, obs>>

Init == segs = <<>> /\ phase = "grow" /\ obs = <<>>

Extend(s) == /\ phase = "grow"
             /\ Len(segs) < MaxSegs
             /\ segs' = Append(segs, s)
             /\ UNCHANGED <<phase, obs>>

Finish(abs, entry, depth, exts, hit, dev) ==
  /\ phase = "grow"
  /\ Len(segs) >= 1
  /\ Relative(entry) \/ depth = 0
  /\ LET refdir == IF Relative(entry) THEN RefDir(depth) ELSE <<>>
         c      == Canon(refdir, abs, segs)
     IN obs' = [abs |-> abs, segs |-> segs, entry |-> entry, depth |-> depth,
                exts |-> exts, hit |-> hit, dev |-> dev, canon |-> c,
                calls |-> ProbeCalls(c, exts, hit, dev, entry # "ParseExtends")]
  /\ phase' = "done"
  /\ UNCHANGED segs

Next == \/ \E s \in Seg : Extend(s)
        \/ \E abs \in BOOLEAN, entry \in Entries, depth \in 0..MaxDepth,
              exts \in ExtLists :
              \E hit \in 0..Len(exts), dev \in BOOLEAN : Finish(abs, entry, depth, exts, hit, dev)

Spec == Init /\ [][Next]_vars

---------------------------------------------------------------------------
(* Properties of the contract itself, checked in every terminal state. *)

Done == phase = "done"

\* the canonical path is clean (no ".", "..", empty segments): it stays in the root
CanonClean == Done => IsClean(obs.canon)

\* cleaning is idempotent: a canonical path spelt back canonicalises to itself
CanonIdempotent == Done => Canon(<<>>, TRUE, obs.canon) = obs.canon

\* every path handed to loader or cache is that canonical path
CallsCanonical == Done => \A i \in 1..Len(obs.calls) : obs.calls[i].path = obs.canon

\* equal spellings modulo no-op segments have equal canons
NoOpSegmentsIrrelevant ==
  Done => LET stripped == SelectSeq(obs.segs, LAMBDA s : s # "" /\ s # ".")
              refdir   == IF Relative(obs.entry) THEN RefDir(obs.depth) ELSE <<>>
          IN Canon(refdir, IsAbs(obs.abs, obs.segs), stripped) = obs.canon

EmitVec == (Done /\ Emit) => PrintT(<<"VEC", ToJson(obs)>>)

---------------------------------------------------------------------------
(* Concrete spelling of a path, used by the trace specification. *)
RECURSIVE JoinSegs(_)
JoinSegs(p) == IF p = <<>> THEN "" ELSE IF Len(p) = 1 THEN p[1] ELSE p[1] \o "/" \o JoinSegs(Tail(p))
PathString(p, ext) == "/" \o JoinSegs(p) \o ext

=============================================================================

------------------------------ MODULE JetPath ------------------------------
(***************************************************************************)
(* Template names and their canonical form (property C15).                 *)
(*                                                                         *)
(* A *spelling* is what a user writes in GetTemplate / extends / import /  *)
(* include / exec / includeIfExists / Parse: an optional leading "/" and a *)
(* sequence of segments joined by "/".  Segments are drawn from            *)
(*   "a", "b"   ordinary names                                             *)
(*   ".", ".."  the two special names                                      *)
(*   ""         the empty segment ("//", or a trailing "/")                *)
(*                                                                         *)
(* CONTRACT (written from the property text only):                         *)
(*   Canon(refdir, n) is the clean absolute path the Set must hand to its  *)
(*   Loader and Cache, where refdir is the (clean) directory of the        *)
(*   referring template, or <<>> for entry points that resolve against the *)
(*   root.                                                                 *)
(*                                                                         *)
(* The module is also a little state machine that *grows* a spelling one   *)
(* segment at a time (so TLC parallelises and -simulate works) and then    *)
(* issues it through one entry point; the terminal states are the vectors  *)
(* replayed against the real library.                                      *)
(***************************************************************************)
EXTENDS JetPathOps, Json

CONSTANTS MaxSegs,        \* longest spelling explored
          MaxDepth,       \* deepest referring directory explored
          ExtLists,       \* set of extension lists (sequences of strings)
          Emit            \* TRUE: print one VEC line per terminal state

---------------------------------------------------------------------------
(* Generator machine *)

VARIABLES segs, phase, obs
vars == <<segs, phase, obs>>

Init == segs = <<>> /\ phase = "grow" /\ obs = <<>>

Extend(s) == /\ phase = "grow"
             /\ Len(segs) < MaxSegs
             /\ segs' = Append(segs, s)
             /\ UNCHANGED <<phase, obs>>

Finish(abs, entry, depth, exts, hit, dev) ==
  /\ phase = "grow"
  /\ Len(segs) >= 1
  /\ Relative(entry) \/ depth = 0
  /\ LET refdir == IF Relative(entry) THEN RefDir(depth) ELSE <<>>
         c      == Canon(refdir, abs, segs)
     IN obs' = [abs |-> abs, segs |-> segs, entry |-> entry, depth |-> depth,
                exts |-> exts, hit |-> hit, dev |-> dev, canon |-> c,
                calls |-> ProbeCalls(c, exts, hit, dev, entry # "ParseExtends")]
  /\ phase' = "done"
  /\ UNCHANGED segs

Next == \/ \E s \in Seg : Extend(s)
        \/ \E abs \in BOOLEAN, entry \in Entries, depth \in 0..MaxDepth,
              exts \in ExtLists :
              \E hit \in 0..Len(exts), dev \in BOOLEAN : Finish(abs, entry, depth, exts, hit, dev)

Spec == Init /\ [][Next]_vars

---------------------------------------------------------------------------
(* Properties of the contract itself, checked in every terminal state. *)

Done == phase = "done"

\* the canonical path is clean (no ".", "..", empty segments): it stays in the root
CanonClean == Done => IsClean(obs.canon)

\* cleaning is idempotent: a canonical path spelt back canonicalises to itself
CanonIdempotent == Done => Canon(<<>>, TRUE, obs.canon) = obs.canon

\* every path handed to loader or cache is that canonical path
CallsCanonical == Done => \A i \in 1..Len(obs.calls) : obs.calls[i].path = obs.canon

\* equal spellings modulo no-op segments have equal canons
NoOpSegmentsIrrelevant ==
  Done => LET stripped == SelectSeq(obs.segs, LAMBDA s : s # "" /\ s # ".")
              refdir   == IF Relative(obs.entry) THEN RefDir(obs.depth) ELSE <<>>
          IN Canon(refdir, IsAbs(obs.abs, obs.segs), stripped) = obs.canon

EmitVec == (Done /\ Emit) => PrintT(<<"VEC", ToJson(obs)>>)

=============================================================================

SPECIFICATION Spec
CONSTANTS
  LD <- D_LD
  RD <- D_RD
  LC <- D_LC
  RC <- D_RC
  Alphabet <- D_Alpha
  Headers <- NoHeader
  MaxLen = 5
  Emit = TRUE
INVARIANTS NoInvention EmitVec
CHECK_DEADLOCK FALSE

---------------------------- MODULE Trace_LexProc ----------------------------
(***************************************************************************)
(* code -> spec for the lexer/parser protocol (C02).  Each line of the     *)
(* trace is one parse (one lexer), recorded by the `verif` hooks:          *)
(*   p      the parser goroutine's events in its own order                 *)
(*          recv(typ) | drainrecv | error | drained | ok | repanic         *)
(*   closed the lexer goroutine logged lex.close                           *)
(* The two goroutines log without a common lock, so the trace keeps one    *)
(* stream per goroutine and TLC looks for an interleaving of JetLexProc's  *)
(* actions that explains both (the lexer's stream is the single close      *)
(* event).  What the lexer still had to send (`left`, `lexErr`) is not     *)
(* logged: Init chooses it and the events must be consistent with it.      *)
(* A parse is explained when all its events are consumed with the parser   *)
(* returned and the lexer goroutine gone; the next line then starts from   *)
(* Init again.  Acceptance: the high-water mark of explained parses.       *)
(***************************************************************************)
EXTENDS JetLexProc, Json

Trace == ndJsonDeserialize("trace_lexproc.ndjson")

VARIABLES n,       \* parse being explained
          i,       \* next event of its parser stream
          lc       \* the lexer's close event has been consumed
tvars == <<vars, n, i, lc>>

P == Trace[n].p
EvIs(e) == n <= Len(Trace) /\ i <= Len(P) /\ P[i].ev = e /\ i' = i + 1 /\ UNCHANGED <<n, lc>>
ItemError == 0
ItemEOF == 5

Start(k) == /\ n' = k /\ i' = 1 /\ lc' = FALSE
            /\ lex' = "emit" /\ sentEnd' = FALSE /\ closed' = FALSE /\ par' = "parse"
            /\ IF k <= Len(Trace)
               THEN left' \in 0..Len(Trace[k].p) /\ lexErr' \in BOOLEAN
               ELSE left' = 0 /\ lexErr' = FALSE

TInit == /\ TLCSet(1, 1)
         /\ n = 1 /\ i = 1 /\ lc = FALSE
         /\ lex = "emit" /\ sentEnd = FALSE /\ closed = FALSE /\ par = "parse"
         /\ left \in 0..Len(Trace[1].p) /\ lexErr \in BOOLEAN

\* parser receives in nextItem(): an ordinary item, or the final one (EOF / the lexer's error item)
TRecv == /\ EvIs("recv") /\ par = "parse"
         /\ IF P[i].typ = ItemEOF THEN HandOverEnd /\ ~lexErr
            ELSE IF P[i].typ = ItemError THEN HandOverEnd /\ lexErr
            ELSE HandOverItem
\* parser receives in drain(): it does not look at the item
TDrainRecv == EvIs("drainrecv") /\ par = "drain" /\ (HandOverItem \/ HandOverEnd)
TError   == EvIs("error") /\ SyntaxError
TDrained == EvIs("drained") /\ DrainDone
TOK      == EvIs("ok") /\ ParseOK
\* the lexer goroutine's only event
TClose   == /\ n <= Len(Trace) /\ Trace[n].closed /\ ~lc /\ lc' = TRUE /\ LexClose /\ UNCHANGED <<n, i>>
\* this parse is explained: the parser returned and the lexer goroutine is gone
TNextParse == /\ n <= Len(Trace) /\ i = Len(P) + 1 /\ par = "returned" /\ lex = "done" /\ lc = Trace[n].closed
              /\ Start(n + 1)

TNext == TRecv \/ TDrainRecv \/ TError \/ TDrained \/ TOK \/ TClose \/ TNextParse
TSpec == TInit /\ [][TNext]_tvars

HighWater == TLCSet(1, IF TLCGet(1) < n THEN n ELSE TLCGet(1))
TConstraint == HighWater
TraceAccepted ==
  LET m == TLCGet(1) IN
  IF m = Len(Trace) + 1 THEN TRUE ELSE PrintT(<<"TRACE-REJECTED-AT", m>>) /\ FALSE
=============================================================================

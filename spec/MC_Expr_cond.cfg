SPECIFICATION Spec
CONSTANTS
  Shapes <- cShapesC
  LeafPool <- cPoolC
  BinOps <- cBinOps
  Emit = TRUE
INVARIANTS BoolOps IntClosed EmitVec
CHECK_DEADLOCK FALSE

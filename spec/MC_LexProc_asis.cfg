SPECIFICATION Spec
CONSTANTS
  MaxItems = 3
  RePanicNoDrain = TRUE
INVARIANTS TypeOK ClosedOnce NoStuck
PROPERTIES ParserReturns NoLeak
CHECK_DEADLOCK FALSE

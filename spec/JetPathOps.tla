----------------------------- MODULE JetPathOps -----------------------------
(***************************************************************************)
(* Pure operators on template names (no variables): the canonical form of  *)
(* a spelling (the contract of C15, also the normalisation contract of the *)
(* in-memory loader in C19) and the probe protocol of one lookup.          *)
(***************************************************************************)
EXTENDS Naturals, Sequences, FiniteSets, TLC

\* "c\\..\\d": ONE segment - on this OS a backslash is a character like any other, not a separator
Seg      == {"a", "b", ".", "..", "", "c\\..\\d"}
Ordinary == {"a", "b", "c\\..\\d"}

Entries  == {"GetTemplate", "extends", "import", "include", "includeData",
             "exec", "includeIfExists", "ParseExtends"}

\* entry points whose relative names resolve against the referring template
Relative(e) == e \in {"extends", "import", "include", "includeData", "ParseExtends"}

---------------------------------------------------------------------------
(* The contract. *)

RECURSIVE CleanFrom(_, _)
CleanFrom(stack, segs) ==
  IF segs = <<>> THEN stack
  ELSE LET s == Head(segs) IN
       CleanFrom(IF s = "" \/ s = "." THEN stack
                 ELSE IF s = ".."
                      THEN (IF stack = <<>> THEN <<>> ELSE SubSeq(stack, 1, Len(stack) - 1))
                      ELSE Append(stack, s),
                 Tail(segs))

\* refdir: clean directory (sequence of ordinary segments) of the referrer
\* a spelling is absolute when it begins with "/": an explicit leading slash, or a leading
\* empty segment (the spelling of <<"", "x">> without leading slash is "/x")
\* (a single empty segment spells the empty string, which is relative)
IsAbs(abs, segs) == abs \/ (Len(segs) >= 2 /\ Head(segs) = "")
Canon(refdir, abs, segs) == CleanFrom(IF IsAbs(abs, segs) THEN <<>> ELSE refdir, segs)

IsClean(p) == \A i \in 1..Len(p) : p[i] \in Ordinary

\* The directory of the referring template at depth d: /a, /a/b, ...
RefDir(d) == IF d = 0 THEN <<>> ELSE IF d = 1 THEN <<"a">> ELSE <<"a", "b">>

---------------------------------------------------------------------------
(* The probe protocol of one lookup: which paths reach Cache and Loader    *)
(* (documented on Set.GetTemplate and Cache.Get: all candidates in the     *)
(* cache first, then all candidates in the loader, first existing wins).   *)
(* `hit` is 0 when no candidate exists in the loader, else the index of    *)
(* the first extension whose candidate exists.                             *)

Call(op, path, ext) == [op |-> op, path |-> path, ext |-> ext]

ProbeCalls(c, exts, hit, dev, caches) ==
  LET gets  == IF dev THEN <<>> ELSE [i \in 1..Len(exts) |-> Call("Get", c, exts[i])]
      last  == IF hit = 0 THEN Len(exts) ELSE hit
      exs   == [i \in 1..last |-> Call("Exists", c, exts[i])]
      open  == IF hit = 0 THEN <<>> ELSE <<Call("Open", c, exts[hit])>>
      put   == IF hit # 0 /\ caches /\ ~dev THEN <<Call("Put", c, exts[hit])>> ELSE <<>>
  IN gets \o exs \o open \o put

---------------------------------------------------------------------------
(* Concrete spelling of a path, used by the trace specification. *)
RECURSIVE JoinSegs(_)
JoinSegs(p) == IF p = <<>> THEN "" ELSE IF Len(p) = 1 THEN p[1] ELSE p[1] \o "/" \o JoinSegs(Tail(p))
PathString(p, ext) == "/" \o JoinSegs(p) \o ext

=============================================================================

SPECIFICATION Spec
CONSTANTS
  MaxStack = 3
  Emit = TRUE
INVARIANTS NeverDirectories FirstLoaderWins EmitVec
CHECK_DEADLOCK FALSE

SPECIFICATION Spec
CONSTANTS
  LD <- F_LD
  RD <- F_RD
  LC <- F_LC
  RC <- F_RC
  Alphabet <- F_Tok
  Headers <- NoHeader
  MaxLen = 4
  Emit = TRUE
INVARIANTS NoInvention EmitVec
CHECK_DEADLOCK FALSE

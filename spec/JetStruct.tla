------------------------------ MODULE JetStruct ------------------------------
(***************************************************************************)
(* The parser as a push-down acceptor over structural tokens (C02): which  *)
(* block-structure mistakes must be rejected.  Mirrors parseTemplate /     *)
(* itemList(terminators) / parseControl / parseBlock / parseYield /        *)
(* parseTry: if/range lists end at else|end, else lists at end, "else if"  *)
(* shares its {{end}} with the enclosing if, block lists end at            *)
(* content|end, yield-content and catch lists at end, try at catch|end;    *)
(* extends must come first, imports next, both before anything else;       *)
(* unterminated actions, comments and string literals are errors.          *)
(*                                                                         *)
(* Verdict: "accept" | "reject" | "unspec" (constructs the property does   *)
(* not list: a stray else/catch/content inside a foreign list).            *)
(***************************************************************************)
EXTENDS Integers, Sequences, FiniteSets, TLC, Json

CONSTANTS Tokens, MaxLen, Emit

Openers == {"IF", "RANGE", "BLOCK", "YIELDC", "TRY"}
Plain   == {"TEXT", "ACT", "COMMENT", "INCLUDE", "RETURN"}

\* state of the acceptor: [stack, header ("start" | "extended" | "imports" | "body"), verdict]
Acc(stack, hdr, v) == [stack |-> stack, hdr |-> hdr, v |-> v]
TopOf(s) == IF s = <<>> THEN "top" ELSE s[Len(s)]
Pop(s) == SubSeq(s, 1, Len(s) - 1)
Repl(s, x) == Append(Pop(s), x)

\* one token; `later` = the tokens after it (needed for unterminated comments / strings)
Step(a, tok, later) ==
  LET s == a.stack  c == TopOf(a.stack)
      body == Acc(s, "body", a.v)
      hasLater(set) == \E i \in 1..Len(later) : later[i] \in set
  IN
  IF a.v # "accept" THEN a
  ELSE CASE tok \in {"COMMENT", "WS"} -> a                                   \* comments and blank text never leave the header
    \* extends / import with a string literal that cannot be unquoted ("a\q"): a syntax error wherever it stands
    [] tok \in {"EXTENDS_BADSTR", "IMPORT_BADSTR"} -> Acc(s, a.hdr, "reject")
    \* extends / import of a template that itself has a structural mistake (directly, or in what it extends): the
    \* referring template is rejected too - and its own lexer is drained like for any other error
    [] tok \in {"EXTENDS_BROKEN", "IMPORT_BROKEN"} -> Acc(s, a.hdr, "reject")
    [] tok = "EXTENDS" -> IF c = "top" /\ a.hdr = "start" THEN Acc(s, "extended", "accept") ELSE Acc(s, a.hdr, "reject")
    [] tok = "IMPORT"  -> IF c = "top" /\ a.hdr \in {"start", "extended", "imports"} THEN Acc(s, "imports", "accept")
                          ELSE Acc(s, a.hdr, "reject")
    [] tok \in Plain   -> body
    [] tok \in Openers -> Acc(Append(s, CASE tok = "IF" -> "if" [] tok = "RANGE" -> "range" [] tok = "BLOCK" -> "block"
                                           [] tok = "YIELDC" -> "ycontent" [] tok = "TRY" -> "try"), "body", "accept")
    [] tok = "ELSE"    -> IF c = "if" THEN Acc(Repl(s, "else"), "body", "accept")
                          ELSE IF c = "range" THEN Acc(Repl(s, "else"), "body", "accept")
                          ELSE IF c = "top" THEN Acc(s, "body", "reject") ELSE Acc(s, "body", "unspec")
    [] tok = "ELSEIF"  -> IF c = "if" THEN Acc(s, "body", "accept")           \* nested if sharing the {{end}}
                          ELSE IF c = "top" THEN Acc(s, "body", "reject") ELSE Acc(s, "body", "unspec")
    [] tok = "CONTENT" -> IF c = "block" THEN Acc(Repl(s, "bcontent"), "body", "accept")
                          ELSE IF c = "top" THEN Acc(s, "body", "reject") ELSE Acc(s, "body", "unspec")
    [] tok = "CATCH"   -> IF c = "try" THEN Acc(Repl(s, "catch"), "body", "accept") ELSE Acc(s, "body", "unspec")
    [] tok = "END"     -> IF c = "top" THEN Acc(s, "body", "reject") ELSE Acc(Pop(s), "body", "accept")
    [] tok = "OPEN_ACTION"  -> Acc(s, "body", "reject")
    [] tok = "OPEN_COMMENT" -> IF hasLater({"COMMENT", "OPEN_COMMENT_OVERLAP"}) THEN Acc(s, a.hdr, "unspec") ELSE Acc(s, a.hdr, "reject")
    \* the opening marker directly followed by the tail of the closing one ("{*}"): the comment is still open
    [] tok = "OPEN_COMMENT_OVERLAP" -> IF hasLater({"COMMENT", "OPEN_COMMENT_OVERLAP"}) THEN Acc(s, a.hdr, "unspec") ELSE Acc(s, a.hdr, "reject")
    [] tok = "OPEN_STRING"  -> IF hasLater({"OPEN_STRING", "EXTENDS", "IMPORT", "INCLUDE"}) THEN Acc(s, "body", "unspec")
                               ELSE Acc(s, "body", "reject")

RECURSIVE RunFrom(_, _)
RunFrom(a, toks) == IF toks = <<>> THEN a ELSE RunFrom(Step(a, Head(toks), Tail(toks)), Tail(toks))

Verdict(toks) ==
  LET a == RunFrom(Acc(<<>>, "start", "accept"), toks) IN
  IF a.v # "accept" THEN a.v
  ELSE IF a.stack # <<>> THEN "reject"               \* missing {{end}}: unexpected EOF
  ELSE "accept"

VARIABLE toks
Init == toks = <<>>
Extend(t) == Len(toks) < MaxLen /\ toks' = Append(toks, t)
Next == \E t \in Tokens : Extend(t)
Spec == Init /\ [][Next]_toks

\* sanity of the contract: a sequence of plain tokens is accepted; a surplus END is rejected
PlainAccepted == (\A i \in 1..Len(toks) : toks[i] \in Plain) => Verdict(toks) = "accept"
SurplusEnd == (toks # <<>> /\ toks[1] = "END") => Verdict(toks) = "reject"

EmitVec == Emit => (Verdict(toks) # "unspec" => PrintT(<<"VEC", ToJson([toks |-> toks, verdict |-> Verdict(toks)])>>))
=============================================================================

SPECIFICATION Spec
CONSTANTS
  MaxItems = 3
  RePanicNoDrain = FALSE
INVARIANTS TypeOK ClosedOnce NoStuck
PROPERTIES ParserReturns NoLeak
CHECK_DEADLOCK FALSE

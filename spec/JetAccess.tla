------------------------------ MODULE JetAccess ------------------------------
(***************************************************************************)
(* Field, index, slice and method access into Go data (C06) and isset      *)
(* (C17).  The data is a fixed catalogue of Go values (mirrored by the     *)
(* harness, which checks the mirror by reflection at start-up) described   *)
(* here as an object table; Resolve is written from Go's selector rules    *)
(* and the property text, independently of the implementation:             *)
(*  - pointers and interfaces are dereferenced to any depth, nil is an error*)
(*  - a method of that name wins (pointer-receiver methods only on pointers *)
(*    or addressable values)                                                *)
(*  - exported struct fields, promoted fields by shallowest depth           *)
(*  - map entries by key of the key type, absent key / nil map yield nil    *)
(*  - slice/array/string elements by in-range integer index                 *)
(*  - unexported/missing fields, out-of-range indexes and bounds are errors *)
(***************************************************************************)
EXTENDS Integers, Sequences, FiniteSets, TLC, Json

CONSTANTS Roots, MaxSteps, Emit, IssetMode

---------------------------------------------------------------------------
(* object table: uniform descriptors *)
D(k) == [k |-> k, txt |-> "", fs |-> <<>>, ms |-> <<>>, es |-> <<>>, ks |-> <<>>, kk |-> "", to |-> ""]
Fd(n, exp, emb, v) == [n |-> n, exp |-> exp, emb |-> emb, v |-> v]
Md(n, ptr, v) == [n |-> n, ptr |-> ptr, v |-> v]
Kv(key, v) == [key |-> key, v |-> v]

InnerFs == <<Fd("Name", TRUE, FALSE, "s:inner.Name"), Fd("Deep", TRUE, FALSE, "s:inner.Deep"), Fd("hidden", FALSE, FALSE, "n:1"),
             Fd("Core", TRUE, TRUE, "core")>>
\* NI is of a non-empty interface type (it holds the same Inner as I)
OuterFs(pinner) ==
  << Fd("Name", TRUE, FALSE, "s:outer.Name"), Fd("Age", TRUE, FALSE, "n:42"), Fd("Zero", TRUE, FALSE, "n:0"),
     Fd("Empty", TRUE, FALSE, "s:"), Fd("F", TRUE, FALSE, "b:false"),
     Fd("Inner", TRUE, TRUE, "inner"), Fd("PInner", TRUE, TRUE, pinner),
     Fd("Tags", TRUE, FALSE, "tags"), Fd("M", TRUE, FALSE, "m"), Fd("P", TRUE, FALSE, "p_inner"), Fd("NilP", TRUE, FALSE, "nilp"),
     Fd("I", TRUE, FALSE, "i_inner"), Fd("NI", TRUE, FALSE, "i_inner"), Fd("NilI", TRUE, FALSE, "niliface"), Fd("secret", FALSE, FALSE, "s:secret"),
     Fd("Arr", TRUE, FALSE, "arr"), Fd("S", TRUE, FALSE, "s:hi"), Fd("MN", TRUE, FALSE, "mn"), Fd("MI", TRUE, FALSE, "mi"),
     Fd("NilM", TRUE, FALSE, "nilmap") >>

StrLeaf == [x \in {"s:inner.Name", "s:inner.Deep", "s:pinner.PName", "s:outer.Name", "s:", "s:secret", "s:inner.InnerM",
                    "s:outer.ValM", "s:outer.PtrM", "s:core.Alpha", "s:core.Beta", "s:core.Gamma", "s:top.TopName", "s:t0", "s:t1", "s:t2", "s:a0", "s:a1", "s:mn.k", "s:mi.1"} |->
            CASE x = "s:inner.Name" -> "inner.Name" [] x = "s:inner.Deep" -> "inner.Deep" [] x = "s:pinner.PName" -> "pinner.PName"
              [] x = "s:outer.Name" -> "outer.Name" [] x = "s:" -> "" [] x = "s:secret" -> "secret" [] x = "s:inner.InnerM" -> "inner.InnerM"
              [] x = "s:top.TopName" -> "top.TopName" [] x = "s:core.Alpha" -> "core.Alpha" [] x = "s:core.Beta" -> "core.Beta" [] x = "s:core.Gamma" -> "core.Gamma"
              [] x = "s:outer.ValM" -> "outer.ValM" [] x = "s:outer.PtrM" -> "outer.PtrM" [] x = "s:t0" -> "t0" [] x = "s:t1" -> "t1"
              [] x = "s:t2" -> "t2" [] x = "s:a0" -> "a0" [] x = "s:a1" -> "a1" [] x = "s:mn.k" -> "mn.k" [] x = "s:mi.1" -> "mi.1"]
IntLeaf == [x \in {"n:1", "n:42", "n:0", "n:104", "n:105"} |->
            CASE x = "n:1" -> "1" [] x = "n:42" -> "42" [] x = "n:0" -> "0" [] x = "n:104" -> "104" [] x = "n:105" -> "105"]

Obj(id) ==
  CASE id = "inner"    -> [D("struct") EXCEPT !.fs = InnerFs, !.ms = <<Md("InnerM", FALSE, "s:inner.InnerM")>>]
    [] id = "core"     -> [D("struct") EXCEPT !.fs = <<Fd("Alpha", TRUE, FALSE, "s:core.Alpha"), Fd("Beta", TRUE, FALSE, "s:core.Beta"),
                                                       Fd("Gamma", TRUE, FALSE, "s:core.Gamma")>>]
    [] id = "pinner"   -> [D("struct") EXCEPT !.fs = <<Fd("PName", TRUE, FALSE, "s:pinner.PName")>>]
    [] id = "outer"    -> [D("struct") EXCEPT !.fs = OuterFs("p_pinner"),
                                              !.ms = <<Md("ValM", FALSE, "s:outer.ValM"), Md("PtrM", TRUE, "s:outer.PtrM")>>]
    [] id = "top"      -> [D("struct") EXCEPT !.fs = <<Fd("TopName", TRUE, FALSE, "s:top.TopName"), Fd("Outer", TRUE, TRUE, "outer")>>]
    [] id = "outer2"   -> [D("struct") EXCEPT !.fs = OuterFs("nilp"),
                                              !.ms = <<Md("ValM", FALSE, "s:outer.ValM"), Md("PtrM", TRUE, "s:outer.PtrM")>>]
    [] id = "p_inner"  -> [D("ptr") EXCEPT !.to = "inner"]
    [] id = "p_pinner" -> [D("ptr") EXCEPT !.to = "pinner"]
    [] id = "p_outer"  -> [D("ptr") EXCEPT !.to = "outer"]
    [] id = "p_outer2" -> [D("ptr") EXCEPT !.to = "outer2"]
    [] id = "pp_outer" -> [D("ptr") EXCEPT !.to = "p_outer"]
    [] id = "i_inner"  -> [D("iface") EXCEPT !.to = "inner"]
    [] id = "nilp"     -> D("nilptr")
    [] id = "niliface" -> D("nil")
    [] id = "nilmap"   -> D("nilmap")
    [] id = "tags"     -> [D("slice") EXCEPT !.es = <<"s:t0", "s:t1", "s:t2">>]
    [] id = "arr"      -> [D("array") EXCEPT !.es = <<"s:a0", "s:a1">>]
    [] id = "outers"   -> [D("slice") EXCEPT !.es = <<"outer">>]
    [] id = "m"        -> [D("map") EXCEPT !.kk = "string", !.ks = <<Kv("a", "n:1"), Kv("zero", "n:0"), Kv("", "n:42")>>]     \* the empty string is a key like any other
    [] id = "mn"       -> [D("map") EXCEPT !.kk = "named", !.ks = <<Kv("k", "s:mn.k")>>]
    [] id = "mi"       -> [D("map") EXCEPT !.kk = "int", !.ks = <<Kv("1", "s:mi.1")>>]
    [] id = "mp"       -> [D("map") EXCEPT !.kk = "string", !.ks = <<Kv("o", "p_outer"), Kv("n", "nilp")>>]
    [] id = "s:hi"     -> [D("str") EXCEPT !.txt = "hi", !.es = <<"n:104", "n:105">>]
    [] id = "nil"      -> D("nil")
    [] id \in DOMAIN StrLeaf  -> [D("str") EXCEPT !.txt = StrLeaf[id]]
    [] id \in DOMAIN IntLeaf  -> [D("int") EXCEPT !.txt = IntLeaf[id]]
    [] id = "b:false"         -> [D("bool") EXCEPT !.txt = "false"]
    [] id \in {"FUNC", "SUB"} -> D("opaque")

IsLeaf(id) == Obj(id).k \in {"str", "int", "bool"}

---------------------------------------------------------------------------
(* steps *)
NameStep(n, syn)  == [t |-> "name", n |-> n, i |-> 0, j |-> 0, syn |-> syn]      \* .n  or ["n"]
CallStep(n)       == [t |-> "call", n |-> n, i |-> 0, j |-> 0, syn |-> "dot"]    \* .n()
IdxStep(i)        == [t |-> "idx", n |-> "", i |-> i, j |-> 0, syn |-> "br"]     \* [i]
StrIdxOnSeq       == [t |-> "sidx", n |-> "x", i |-> 0, j |-> 0, syn |-> "br"]   \* ["x"] on a slice
SliceStep(i, j)   == [t |-> "slice", n |-> "", i |-> i, j |-> j, syn |-> "br"]   \* [i:j]; -1 = omitted

FieldNames == {"TopName", "Outer", "Alpha", "Beta", "Gamma", "Core", "Name", "Age", "Zero", "Empty", "F", "Deep", "PName", "Inner", "Tags", "M", "P", "NilP", "I", "NI", "NilI",
               "secret", "hidden", "Arr", "S", "MN", "MI", "NilM", "Nosuch", "a", "zero", "k", "nokey", "o", "n"}
MethodNames == {"ValM", "PtrM", "InnerM", "NoM"}
Steps == {NameStep(n, s) : n \in FieldNames, s \in {"dot", "br"}} \cup {CallStep(m) : m \in MethodNames}
         \cup {IdxStep(i) : i \in -1..3} \cup {StrIdxOnSeq} \cup {NameStep("", "br")}
         \cup {SliceStep(0, 1), SliceStep(1, -1), SliceStep(-1, 2), SliceStep(1, 9), SliceStep(2, 1), SliceStep(0, 0)}

---------------------------------------------------------------------------
(* the contract *)
Ok(v, addr) == [ok |-> TRUE, v |-> v, addr |-> addr, base |-> "", lo |-> 0, hi |-> 0]
ErrR == [ok |-> FALSE, v |-> "", addr |-> FALSE, base |-> "", lo |-> 0, hi |-> 0]
NilR == Ok("nil", FALSE)

\* strip pointers and interfaces: [ok, v, addr]; nil pointer / nil interface is an error for any access
RECURSIVE Deref(_, _)
Deref(id, addr) ==
  LET o == Obj(id) IN
  IF o.k = "ptr" THEN Deref(o.to, TRUE)
  ELSE IF o.k = "iface" THEN Deref(o.to, FALSE)
  ELSE IF o.k \in {"nilptr", "nil"} THEN ErrR
  ELSE Ok(id, addr)

\* is the value a pointer at the surface (pointer-receiver methods are in its method set)
IsPtr(id) == Obj(id).k = "ptr"

RECURSIVE EmbeddedOf(_)
EmbeddedOf(ids) == IF ids = <<>> THEN <<>>
                   ELSE LET em == SelectSeq(Obj(Head(ids)).fs, LAMBDA f : f.emb)
                        IN [i \in 1..Len(em) |-> em[i].v] \o EmbeddedOf(Tail(ids))

\* promoted fields: breadth-first by embedding depth; an embedded nil pointer on the way is an error
RECURSIVE FindField(_, _, _)
FindField(level, name, fuel) ==     \* level: sequence of struct ids at the current depth (in order)
  IF level = <<>> \/ fuel = 0 THEN [found |-> FALSE, ok |-> FALSE, v |-> ""]
  ELSE LET hits == {i \in 1..Len(level) : \E f \in 1..Len(Obj(level[i]).fs) : Obj(level[i]).fs[f].n = name}
       IN IF hits # {} THEN
            LET sid == level[CHOOSE i \in hits : \A j \in hits : i <= j]
                fi  == CHOOSE f \in 1..Len(Obj(sid).fs) : Obj(sid).fs[f].n = name
                fd  == Obj(sid).fs[fi]
            IN [found |-> TRUE, ok |-> fd.exp, v |-> fd.v]
          ELSE LET raw == EmbeddedOf(level)
                   \* an embedded pointer is followed; a nil one contributes nothing
                   next == SelectSeq([i \in 1..Len(raw) |-> IF Obj(raw[i]).k = "ptr" THEN Obj(raw[i]).to ELSE raw[i]],
                                     LAMBDA x : Obj(x).k = "struct")
               IN FindField(next, name, fuel - 1)

\* methods: own, then promoted from embedded structs level by level; pointer receivers of the
\* outermost type need a pointer or an addressable value
RECURSIVE FindMethodIn(_, _, _, _, _)
FindMethodIn(level, name, canPtr, top, fuel) ==
  IF level = <<>> \/ fuel = 0 THEN [found |-> FALSE, v |-> ""]
  ELSE LET hits == {i \in 1..Len(level) : \E k \in 1..Len(Obj(level[i]).ms) : Obj(level[i]).ms[k].n = name}
       IN IF hits # {} THEN
            LET sid == level[CHOOSE i \in hits : \A j \in hits : i <= j]
                m   == Obj(sid).ms[CHOOSE k \in 1..Len(Obj(sid).ms) : Obj(sid).ms[k].n = name]
            IN IF m.ptr /\ ~canPtr THEN [found |-> FALSE, v |-> ""] ELSE [found |-> TRUE, v |-> m.v]
          ELSE LET raw  == EmbeddedOf(level)
                   next == SelectSeq([i \in 1..Len(raw) |-> IF Obj(raw[i]).k = "ptr" THEN Obj(raw[i]).to ELSE raw[i]],
                                     LAMBDA x : Obj(x).k = "struct")
               IN FindMethodIn(next, name, canPtr, FALSE, fuel - 1)
FindMethod(sid, name, canPtr) == FindMethodIn(<<sid>>, name, canPtr, TRUE, 5)

MapGet(o, key) == LET S == {i \in 1..Len(o.ks) : o.ks[i].key = key} IN
                  IF S = {} THEN "nil" ELSE o.ks[CHOOSE i \in S : TRUE].v

Resolve(id, addr, st) ==
  LET d == Deref(id, addr) IN
  IF id = "nil" THEN ErrR
  ELSE IF ~d.ok THEN ErrR
  ELSE LET o == Obj(d.v)
           canPtr == IsPtr(id) \/ d.addr
       IN
       CASE st.t = "call" ->
              IF o.k # "struct" THEN ErrR
              ELSE LET m == FindMethod(d.v, st.n, canPtr) IN IF m.found THEN Ok(m.v, FALSE) ELSE ErrR
         [] st.t = "name" ->
              IF o.k = "struct" THEN
                   IF FindMethod(d.v, st.n, canPtr).found THEN Ok("FUNC", FALSE)     \* a method value; only used through isset
                   ELSE LET f == FindField(<<d.v>>, st.n, 5) IN
                        IF f.found THEN (IF f.ok THEN Ok(f.v, d.addr) ELSE ErrR)
                        ELSE ErrR
              ELSE IF o.k = "map" THEN
                   IF o.kk \in {"string", "named"} THEN Ok(MapGet(o, st.n), FALSE) ELSE ErrR
              ELSE IF o.k = "nilmap" THEN NilR
              ELSE ErrR
         [] st.t = "idx" ->
              IF o.k \in {"slice", "array", "str"} THEN
                   IF st.i >= 0 /\ st.i < Len(o.es) THEN Ok(o.es[st.i + 1], TRUE) ELSE ErrR
              ELSE IF o.k = "map" THEN (IF o.kk = "int" THEN Ok(MapGet(o, ToString(st.i)), FALSE) ELSE ErrR)
              ELSE IF o.k = "nilmap" THEN ErrR      \* nil map[string]: an int is not a key of its key type
              ELSE ErrR
         [] st.t = "sidx" ->
              IF o.k = "map" /\ o.kk \in {"string", "named"} THEN Ok(MapGet(o, st.n), FALSE)
              ELSE IF o.k = "nilmap" THEN NilR ELSE ErrR
         [] st.t = "slice" ->
              IF o.k \in {"slice", "array", "str"} THEN
                   LET lo == IF st.i < 0 THEN 0 ELSE st.i
                       hi == IF st.j < 0 THEN Len(o.es) ELSE st.j
                   IN IF lo <= hi /\ hi <= Len(o.es) THEN [Ok("SUB", FALSE) EXCEPT !.base = d.v, !.lo = lo, !.hi = hi] ELSE ErrR
              ELSE ErrR

RECURSIVE ResolvePath(_, _, _)
ResolvePath(id, addr, path) ==
  IF path = <<>> THEN Ok(id, addr)
  ELSE IF id \in {"SUB", "FUNC"} THEN ErrR     \* not explored further
  ELSE LET r == Resolve(id, addr, Head(path)) IN
       IF ~r.ok THEN ErrR ELSE IF Tail(path) = <<>> THEN r ELSE ResolvePath(r.v, r.addr, Tail(path))

\* isset: resolves without error to a non-nil value (zero numbers, "" and false exist)
NonNil(id) == id # "nil" /\ Obj(id).k \notin {"nilptr", "nil", "nilmap"}
IsSetPath(root, path) == LET r == ResolvePath(root, FALSE, path) IN r.ok /\ NonNil(r.v)

---------------------------------------------------------------------------
VARIABLES root, path, phase
vars == <<root, path, phase>>
Init == root \in Roots /\ path = <<>> /\ phase = "grow"
Extend(st) == /\ phase = "grow" /\ Len(path) < MaxSteps
              \* stop growing below an error or a value that is not explored further
              /\ LET r == ResolvePath(root, FALSE, path) IN
                   /\ r.ok /\ r.v \notin {"FUNC", "SUB"}
                   \* not explored: bytes of string leaves other than "hi" (TLC has no string indexing),
                   \* and method calls on a nil pointer (legal in Go when the method does not dereference)
                   /\ ~(r.v \in DOMAIN StrLeaf /\ st.t \in {"idx", "slice"})
                   /\ ~(r.v # "nil" /\ Obj(r.v).k = "nilptr" /\ st.t = "call")
              /\ path' = Append(path, st) /\ UNCHANGED <<root, phase>>
\* the empty path is the root variable itself (a nil Execute variable still shadows a global of its name)
Finish == phase = "grow" /\ phase' = "done" /\ UNCHANGED <<root, path>>
Next == Finish \/ \E st \in Steps : Extend(st)
Spec == Init /\ [][Next]_vars
Done == phase = "done"

Outcome == LET r == ResolvePath(root, FALSE, path)
               E(kind, txt) == [kind |-> kind, txt |-> txt, base |-> r.base, lo |-> r.lo, hi |-> r.hi]
           IN
           IF ~r.ok THEN E("error", "")
           ELSE IF r.v = "SUB" THEN E("sub", "")
           ELSE IF r.v = "FUNC" THEN E("func", "")
           ELSE IF r.v = "nil" \/ Obj(r.v).k \in {"nil", "nilptr", "nilmap"} THEN E("nil", "")
           ELSE IF IsLeaf(r.v) THEN E("leaf", Obj(r.v).txt)
           ELSE E("composite", r.v)

\* two-value lookup  v, ok := m[k] : ok says whether the key is present (whatever the stored value)
KeyPresent ==
  IF path = <<>> THEN "na"
  ELSE LET pre == ResolvePath(root, FALSE, SubSeq(path, 1, Len(path) - 1))
           st  == path[Len(path)]
       IN IF ~pre.ok \/ pre.v \in {"FUNC", "SUB", "nil"} \/ st.syn # "br" THEN "na"
          ELSE LET d == Deref(pre.v, pre.addr) IN
               IF ~d.ok THEN "na"
               ELSE LET o == Obj(d.v) IN
                    IF o.k = "map" /\ st.t \in {"name", "sidx"} /\ o.kk \in {"string", "named"}
                    THEN (IF \E i \in 1..Len(o.ks) : o.ks[i].key = st.n THEN "yes" ELSE "no")
                    ELSE IF o.k = "map" /\ st.t = "idx" /\ o.kk = "int"
                    THEN (IF \E i \in 1..Len(o.ks) : o.ks[i].key = ToString(st.i) THEN "yes" ELSE "no")
                    ELSE "na"

\* a.b and a["b"] agree for members that exist
DotBracketAgree ==
  Done => \A i \in 1..Len(path) : path[i].t = "name" =>
            LET other == [path EXCEPT ![i].syn = IF path[i].syn = "dot" THEN "br" ELSE "dot"]
            IN ResolvePath(root, FALSE, other) = ResolvePath(root, FALSE, path)
\* no access yields a value that is not stored in the data: every successful leaf is a catalogue leaf
Total == Done => Outcome.kind \in {"error", "nil", "sub", "func", "leaf", "composite"}

Composite == {"top", "core", "inner", "pinner", "outer", "outer2", "tags", "arr", "outers", "m", "mn", "mi", "mp", "s:hi"}
\* isset never fails: arguments whose evaluation runs into a Go run-time error (not an error Jet raises itself)
\* are simply not set.  imap is a map[interface{}]string, gzero the int 0, pnil a nil pointer whose method BoomM
\* dereferences its receiver.
Hostile == << "imap[root.Tags]",            \* unhashable map key
              "root.Tags[root.Age / gzero]", \* integer division by zero inside the index
              "pnil.BoomM().Name",           \* a method that dereferences its nil receiver
              "root.Tags[imap[root.Tags]]",
              "exec(\"/failrange.jet\").x" >>  \* the exec'd template fails inside a range (which rebinds '.')
EmitCatalogue == (Emit /\ phase = "grow" /\ path = <<>> /\ root = "outer") =>
  PrintT(<<"VEC", ToJson([catalogue |-> [id \in Composite |-> Obj(id)], hostile |-> Hostile])>>)

EmitVec == (Emit /\ Done) =>
  PrintT(<<"VEC", ToJson([root |-> root, path |-> path, outcome |-> Outcome, isset |-> IsSetPath(root, path), keypresent |-> KeyPresent])>>)
=============================================================================

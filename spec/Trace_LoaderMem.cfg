SPECIFICATION TraceSpec
CONSTANTS
  SpellingSeq <- cEmptySeq
  MaxMuts = 0
  Emit = FALSE
POSTCONDITION TraceAccepted
CHECK_DEADLOCK FALSE

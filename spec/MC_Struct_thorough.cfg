SPECIFICATION Spec
CONSTANTS
  Tokens = {"TEXT", "WS", "ACT", "IF", "ELSE", "ELSEIF", "RANGE", "BLOCK", "CONTENT", "YIELDC", "TRY", "CATCH", "END", "EXTENDS", "IMPORT", "EXTENDS_BADSTR", "IMPORT_BADSTR", "COMMENT", "OPEN_ACTION", "OPEN_COMMENT", "OPEN_STRING"}
  MaxLen = 5
  Emit = TRUE
INVARIANTS PlainAccepted SurplusEnd EmitVec
CHECK_DEADLOCK FALSE

SPECIFICATION Spec
CONSTANTS
  LD <- C_LD
  RD <- C_RD
  LC <- C_LC
  RC <- C_RC
  Alphabet <- C_Alpha
  Headers <- NoHeader
  MaxLen = 5
  Emit = TRUE
INVARIANTS NoInvention EmitVec
CHECK_DEADLOCK FALSE

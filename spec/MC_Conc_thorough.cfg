SPECIFICATION Spec
CONSTANTS
  Programs <- cProgramsAll
  Emit = TRUE
INVARIANTS NoDeadlock CacheSound SerialResults EmitVec
PROPERTIES Terminates ParseNeverCaches
CHECK_DEADLOCK FALSE

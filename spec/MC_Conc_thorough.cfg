SPECIFICATION Spec
CONSTANTS
  Programs <- cProgramsAll
  Emit = TRUE
INVARIANTS NoDeadlock CacheSound SerialResults EmitVec
PROPERTIES Terminates
CHECK_DEADLOCK FALSE

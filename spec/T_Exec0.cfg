SPECIFICATION Spec
CONSTANTS
  Cases <- cCases
  Names <- cNames
  FixTry = TRUE
  FixPool = TRUE
  RetKeep = TRUE
  ExecFull = TRUE
  AnyFail = FALSE
INVARIANTS TypeOK Show StartsClean
PROPERTIES ConstructRestores TryRestoresState AppendOnly
CHECK_DEADLOCK FALSE

SPECIFICATION Spec
CONSTANTS
  LD <- A_LD
  RD <- A_RD
  LC <- A_LC
  RC <- A_RC
  Alphabet <- A_Alpha
  Headers <- NoHeader
  MaxLen = 6
  Emit = TRUE
INVARIANTS NoInvention EmitVec
CHECK_DEADLOCK FALSE

------------------------------- MODULE MC_Expr -------------------------------
EXTENDS JetExpr
cBinOps == {"+", "-", "*", "/", "%", "<", "<=", ">", ">=", "==", "!=", "&&", "||"}
cShapesQ == {"U", "B1", "L2", "R2", "NEGL", "NEGR", "NEG3", "NOTB", "NOTL", "T1", "T2R", "T2L"}
cPoolQ == {"iv7", "iv2", "in3", "f15", "f1", "chr", "f32v", "u7", "ss", "bt", "pf", "pt"}
cShapesT == cShapesQ \cup {"L3"}
cPoolT == {"iv7", "iv2", "in3", "iv1", "f15", "f1", "fv025", "ss", "se", "bt", "bf", "pt", "pf", "pi", "idx", "call", "paren", "fld", "cfld", "f32v", "u7", "chr"}
cPoolU == {"iv7", "iv2", "in3", "iv1", "f15", "f2", "f1", "fv025", "ss", "sv", "se", "bt", "bf", "bv", "pt", "pf", "pi", "idx", "call", "paren", "fld", "cfld", "f32v", "u7", "u8v", "chr"}
=============================================================================

------------------------------- MODULE MC_Expr -------------------------------
EXTENDS JetExpr
cBinOps == {"+", "-", "*", "/", "%", "<", "<=", ">", ">=", "==", "!=", "&&", "||"}
cShapesQ == {"U", "B1", "L2", "R2", "NEGL", "NEGR", "NEG3", "NOTB", "NOTL", "T1", "T2R", "T2L"}
cPoolQ == {"iv7", "iv2", "in3", "f15", "f1", "chr", "f32v", "u7", "ss", "bt", "pf", "pt"}
\* conditions (C05): logical and relational chains over truthy and falsy operands of every kind
cShapesC == {"B1", "L2", "R2", "NOTB", "NOTL", "T1"}
cPoolC == {"iv7", "f15", "ss", "se", "bt", "bf", "pt", "pf"}
cShapesT == cShapesQ \cup {"L3"}
cPoolT == {"iv7", "iv2", "in3", "iv1", "f15", "f1", "fv025", "ss", "se", "bt", "bf", "pt", "pf", "pi", "idx", "call", "paren", "fld", "cfld", "f32v", "u7", "chr"}
cPoolU == {"iv7", "iv2", "in3", "iv1", "f15", "f2", "f1", "fv025", "ss", "sv", "se", "bt", "bf", "bv", "pt", "pf", "pi", "idx", "call", "paren", "fld", "cfld", "f32v", "u7", "u8v", "chr"}
=============================================================================
